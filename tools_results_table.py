#!/usr/bin/env python3
"""Regenerates the results table of DESIGN.md §0.4 (between the markers) from evidence/*.json
(quick tier runs on the unchanged tree) and thorough_timings.json (measured thorough runs)."""
import json, re, os
props=[json.loads(l)['id'] for l in open('/verif/properties.jsonl')]
th=json.load(open('/verif/thorough_timings.json')) if os.path.exists('/verif/thorough_timings.json') else {}
rows=[]
for p in props:
    e=json.load(open(f'/verif/evidence/{p}.json'))
    c=e['coverage']
    hs=[h['harness'].replace('vpH_','') for h in c['harnesses'] if h['harness']!='vpH_selftest']
    t=th.get(p,{})
    rows.append(f"| {p} | {', '.join(hs)} | {c['states']:,} | {c['solver_queries']:,} | {c['traces_validated_against_impl']:,} | {e['wall_s']:.0f} s ({e['tier']}) | {t.get('paths','–')} | {t.get('wall','–')} |".replace(',', ' '))
table="| | harnesses | paths (all values decided per path) | solver queries | natively run paths | wall | thorough: paths | thorough: wall |\n|---|---|---|---|---|---|---|---|\n"+"\n".join(rows)+"\n"
s=open('/verif/DESIGN.md').read()
a='<!-- results-table-begin -->\n'; b='<!-- results-table-end -->\n'
i,j=s.index(a)+len(a), s.index(b)
s=s[:i]+table+s[j:]
open('/verif/DESIGN.md','w').write(s)
print(table)
