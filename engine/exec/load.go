package exec

import (
	"fmt"
	"os"
	"path/filepath"
	"sort"
	"strings"
	"sync"

	"golang.org/x/tools/go/packages"
	"golang.org/x/tools/go/ssa"
	"golang.org/x/tools/go/ssa/ssautil"
)

// Program is the immutable, shared SSA form of /repo's current working tree
// plus the harness files injected by overlay.
type Program struct {
	Prog     *ssa.Program
	Pkg      *ssa.Package // package under test (harnesses live here)
	Harness  map[string]*ssa.Function
	Overlay  map[string]string // virtual path -> real file (for native replay)
	RepoDir  string
	PkgDir   string
	LoadSecs float64
	Dropped  map[string]string // harness files that no longer type-check against the tree -> first error

	jsonOnce sync.Once
	jsonFn   *ssa.Function
}

// jsonAppendString finds the string instantiation of encoding/json.appendString.
func (p *Program) jsonAppendString() *ssa.Function {
	p.jsonOnce.Do(func() {
		for fn := range ssautil.AllFunctions(p.Prog) {
			o := fn.Origin()
			if o == nil || o.Name() != "appendString" || o.Pkg == nil || o.Pkg.Pkg.Path() != "encoding/json" {
				continue
			}
			if ta := fn.TypeArgs(); len(ta) == 1 && isString(ta[0]) {
				p.jsonFn = fn
				return
			}
		}
	})
	return p.jsonFn
}

// Load type-checks repoDir/pkgRel (with every dependency from source) and
// builds SSA with generics instantiated. harnessDir's *.go files are overlaid
// into the package directory; nothing is written under repoDir.
func Load(repoDir, pkgRel, harnessDir string) (*Program, error) {
	pkgDir := filepath.Join(repoDir, pkgRel)
	overlay := map[string][]byte{}
	ovPaths := map[string]string{}
	ents, err := os.ReadDir(harnessDir)
	if err != nil {
		return nil, err
	}
	for _, ent := range ents {
		if ent.IsDir() || !strings.HasSuffix(ent.Name(), ".go") {
			continue
		}
		v := filepath.Join(pkgDir, ent.Name())
		ovPaths[v] = filepath.Join(harnessDir, ent.Name())
		if strings.HasSuffix(ent.Name(), "_test.go") {
			continue // only for the native replay build
		}
		b, err := os.ReadFile(filepath.Join(harnessDir, ent.Name()))
		if err != nil {
			return nil, err
		}
		overlay[v] = b
	}
	// go.mod/go.sum are used through copies (-modfile) so that the go command
	// can never rewrite the repository's own files (a harness may import a
	// package of an indirect dependency).
	modDir, err := os.MkdirTemp("", "symgo-mod-")
	if err != nil {
		return nil, err
	}
	defer os.RemoveAll(modDir)
	for _, f := range []string{"go.mod", "go.sum"} {
		b, err := os.ReadFile(filepath.Join(repoDir, f))
		if err != nil {
			return nil, err
		}
		if err := os.WriteFile(filepath.Join(modDir, f), b, 0o644); err != nil {
			return nil, err
		}
	}
	// A change to the tree may break a harness that drives an unexported seam. Such a
	// harness FILE is dropped (reported as unavailable: INCONCLUSIVE for its harnesses)
	// and the remaining harnesses are still run, instead of losing the whole check.
	dropped := map[string]string{}
	var initial []*packages.Package
	for attempt := 0; ; attempt++ {
		cfg := &packages.Config{
			BuildFlags: []string{"-modfile=" + filepath.Join(modDir, "go.mod")},
			Mode: packages.NeedName | packages.NeedFiles | packages.NeedCompiledGoFiles | packages.NeedImports |
				packages.NeedDeps | packages.NeedTypes | packages.NeedSyntax | packages.NeedTypesInfo | packages.NeedTypesSizes | packages.NeedModule,
			Dir:     pkgDir,
			Overlay: overlay,
			Env: append(os.Environ(), "GOFLAGS=-mod=mod", "GOPROXY=off", "GOSUMDB=off", "GOTOOLCHAIN=local",
				"CGO_ENABLED=1"),
		}
		var err error
		initial, err = packages.Load(cfg, ".")
		if err != nil {
			return nil, err
		}
		if len(initial) != 1 {
			return nil, fmt.Errorf("expected one package in %s, got %d", pkgDir, len(initial))
		}
		var errs []string
		packages.Visit(initial, nil, func(p *packages.Package) {
			for _, e := range p.Errors {
				errs = append(errs, e.Error())
			}
		})
		if len(errs) == 0 {
			break
		}
		sort.Strings(errs)
		// which harness files carry the errors?
		bad := map[string]string{}
		for _, e := range errs {
			for v := range overlay {
				base := filepath.Base(v)
				if strings.Contains(e, v+":") && base != "zz_verif_vp.go" && base != "zz_verif_gen.go" {
					if _, seen := bad[v]; !seen {
						bad[v] = e
					}
				}
			}
		}
		if len(bad) == 0 || attempt >= 4 {
			if len(errs) > 12 {
				errs = errs[:12]
			}
			return nil, fmt.Errorf("type errors (harness out of date with the tree?):\n  %s", strings.Join(errs, "\n  "))
		}
		for v, e := range bad {
			dropped[filepath.Base(v)] = e
			delete(overlay, v)
			delete(ovPaths, v)
		}
	}
	prog, pkgs := ssautil.AllPackages(initial, ssa.InstantiateGenerics)
	prog.Build()
	p := &Program{Prog: prog, Pkg: pkgs[0], Harness: map[string]*ssa.Function{}, Overlay: ovPaths, RepoDir: repoDir, PkgDir: pkgDir, Dropped: dropped}
	for name, m := range p.Pkg.Members {
		if f, ok := m.(*ssa.Function); ok && strings.HasPrefix(name, "vpH_") {
			p.Harness[name] = f
		}
	}
	return p, nil
}
