package mocrelay

import (
	"errors"
	"fmt"
	"sort"
	"strconv"
	"strings"
)

func init() {
	vpHarnesses["vpH_selftest"] = vpH_selftest
}

// Engine self-test (DESIGN 3.9): small Go programs, one per construct that is
// easy to get wrong in an interpreter, on symbolic inputs. Every observation is
// recorded with vpNote*: the engine predicts it from the path's model, the
// native run of the same function on the same inputs must observe the same.
// It runs with every check; a disagreement makes the check INCONCLUSIVE.

type vpSTPoint struct{ X, Y int64 }

type vpSTShape interface{ Area() int64 }
type vpSTRect struct{ W, H int64 }

func (r vpSTRect) Area() int64    { return r.W * r.H }
func (r *vpSTRect) Scale(k int64) { r.W *= k; r.H *= k }

func vpSTDefer(x int64) (r int64) {
	defer func() { r += 1000 }()
	defer func() {
		if e := recover(); e != nil {
			r = -1
		}
	}()
	if x == 7 {
		panic("seven")
	}
	return x * 2
}

func vpSTGeneric[T int64 | uint8](a, b T) T {
	if a < b {
		return b - a
	}
	return a - b
}

func vpH_selftest() {
	x := vpInt64("x")
	y := vpInt64("y")
	b := vpByte("b")
	s := vpString("s", 3)
	switch vpChoice("group", 6) {
	case 0: // integer arithmetic: wrap-around, signed division/remainder, shifts, conversions
		vpAssume(y != 0)
		vpNoteInt64("add", x+y)
		vpNoteInt64("mul", x*3)
		vpNoteInt64("div", x/y)
		vpNoteInt64("rem", x%y)
		sh := uint(b) % 80
		vpNoteInt64("shl", x<<sh)
		vpNoteInt64("shr", x>>sh)
		vpNoteInt64("ushr", int64(uint64(x)>>sh))
		vpNoteInt64("i8", int64(int8(x)))
		vpNoteInt64("u8", int64(uint8(x)))
		vpNoteInt64("i32", int64(int32(x)))
		vpNoteInt64("u32", int64(uint32(x)))
		vpNoteInt64("neg", -x)
		vpNoteInt64("not", ^x)
		vpNoteInt64("andnot", x&^y)
		vpNoteBool("lt", x < y)
		vpNoteBool("ult", uint64(x) < uint64(y))
		vpNoteInt64("min", min(x, y, 5))
		vpNoteInt64("max", max(x, y))
		vpNoteInt64("b-arith", int64(b+200))
	case 1: // strings: bytes, comparison, slicing, concatenation, iteration over (invalid) UTF-8
		vpNoteStr("s", s)
		vpNoteBool("lt-abc", s < "abc")
		vpNoteBool("eq", s == "a\x00b")
		vpNoteStr("slice", s[1:]+"|"+s[:1])
		vpNoteInt64("index-colon", int64(strings.IndexByte(s, ':')))
		vpNoteBool("prefix", strings.HasPrefix(s, "ab"))
		n := 0
		var sum int64
		for i, r := range s {
			n++
			sum += int64(r) * int64(i+1)
		}
		vpNoteInt64("runes", int64(n))
		vpNoteInt64("runesum", sum)
		vpNoteStr("bytes", string([]byte(s)[1:2]))
		vpNoteInt64("split", int64(len(strings.Split(s, ","))))
		vpNoteStr("lower", strings.ToLower("AbC"))
		vpNoteStr("trim", strings.TrimSpace(" x\t"))
	case 2: // values vs references: struct/array copies, slices sharing a backing array, append aliasing
		p := vpSTPoint{x, y}
		q := p
		q.X++
		arr := [3]int64{x, y, 1}
		arr2 := arr
		arr2[0] = 9
		sl := arr[:2]
		sl2 := append(sl, 42)  // writes arr[2]
		sl3 := append(sl2, 43) // reallocates
		sl3[0] = 77
		vpNoteInt64("p.X", p.X)
		vpNoteInt64("q.X", q.X)
		vpNoteInt64("arr0", arr[0])
		vpNoteInt64("arr2", arr[2])
		vpNoteInt64("arr2copy", arr2[0])
		vpNoteInt64("len", int64(len(sl3)))
		vpNoteInt64("sl2cap", int64(cap(sl2)))
		vpNoteInt64("copied", int64(copy(sl, []int64{1, 2, 3})))
		vpNoteInt64("arr1", arr[1])
		var nilsl []int64
		vpNoteBool("nilslice", nilsl == nil)
		vpNoteBool("emptyslice", sl[:0] == nil)
		pp := &p
		pp.Y = 5
		vpNoteInt64("p.Y", p.Y)
	case 3: // maps: zero values, comma-ok, deletion during range, struct and interface keys
		m := map[string]int64{"a": 1, "b": 2}
		k := string([]byte{b})
		m[k] += 10
		v, ok := m["zz"]
		vpNoteInt64("missing", v)
		vpNoteBool("ok", ok)
		vpNoteInt64("len", int64(len(m)))
		vpNoteInt64("a", m["a"])
		for key := range m {
			if key != "a" {
				delete(m, key)
			}
		}
		vpNoteInt64("len-after", int64(len(m)))
		type key struct {
			What int8
			V    any
		}
		mk := map[key]int{{1, "x"}: 1, {1, int64(3)}: 2, {2, [2]string{"a", "b"}}: 3}
		vpNoteInt64("iface-key", int64(mk[key{1, int64(3)}]+10*mk[key{2, [2]string{"a", "b"}}]+100*mk[key{1, 3}]))
		var nm map[string]bool
		vpNoteBool("nil-map-read", nm["x"])
		vpNoteBool("nil-map-write-panics", vpCatchPanic(func() { nm["x"] = true }))
		keys := []string{}
		for key := range map[string]bool{"q": true, "p": true, "r": true} {
			keys = append(keys, key)
		}
		sort.Strings(keys)
		vpNoteStr("keys", strings.Join(keys, ""))
	case 4: // defer/recover, named results, closures over loop variables, method values, interfaces
		vpNoteInt64("defer", vpSTDefer(x))
		vpNoteInt64("defer7", vpSTDefer(7))
		var fs []func() int64
		for i := int64(0); i < 3; i++ {
			fs = append(fs, func() int64 { return i * 10 })
		}
		vpNoteInt64("closures", fs[0]()+fs[1]()+fs[2]())
		r := vpSTRect{2, 3}
		scale := r.Scale
		scale(2)
		var sh vpSTShape = r
		r.W = 100
		vpNoteInt64("area", sh.Area())
		_, isRect := sh.(vpSTRect)
		_, isPtr := sh.(*vpSTRect)
		vpNoteBool("isRect", isRect)
		vpNoteBool("isPtr", isPtr)
		vpNoteInt64("generic", vpSTGeneric(x, y)+int64(vpSTGeneric(b, 7)))
		e1 := errors.New("e1")
		e2 := fmt.Errorf("wrap: %w", e1)
		vpNoteBool("errors.Is", errors.Is(e2, e1))
		vpNoteBool("errors.Is-other", errors.Is(e2, errors.New("e1")))
		vpNoteStr("errtext", e2.Error())
		vpNoteBool("idx-panics", vpCatchPanic(func() { _ = []int{1}[len(s)] }))
		var np *vpSTPoint
		vpNoteBool("nil-deref-panics", vpCatchPanic(func() { _ = np.X }))
	case 5: // channels, select, strconv, fmt
		ch := make(chan int64, 2)
		ch <- x
		ch <- y
		close(ch)
		var got int64
		cnt := 0
		for v := range ch {
			got = got*31 + v
			cnt++
		}
		vpNoteInt64("chan", got)
		vpNoteInt64("cnt", int64(cnt))
		v, ok := <-ch
		vpNoteBool("closed-ok", ok || v != 0)
		sel := 0
		var nilch chan int
		select {
		case <-nilch:
			sel = 1
		default:
			sel = 2
		}
		vpNoteInt64("select-default", int64(sel))
		n, err := strconv.ParseInt("-123", 10, 64)
		vpNoteInt64("parseint", n)
		vpNoteBool("parseerr", err != nil)
		_, err = strconv.ParseInt("99999999999999999999", 10, 64)
		vpNoteBool("parserange", err != nil)
		vpNoteStr("sprintf", fmt.Sprintf("%d:%s:%q|%v", 30000, "pk", "d", true))
		vpNoteStr("itoa", strconv.FormatInt(-45, 10)+strconv.Itoa(7))
	}
	vpReach("end")
}
