package exec

import (
	"fmt"
	"go/types"
	"unicode/utf8"

	"golang.org/x/tools/go/ssa"
	"symgo/smt"
)

type intrinsic func(e *Exec, caller *frame, fn *ssa.Function, args []Value) Value

var vpIntrinsics map[string]intrinsic

func init() {
	vpIntrinsics = map[string]intrinsic{
		"vpTier":       vpTier,
		"vpSymbolic":   func(e *Exec, _ *frame, _ *ssa.Function, _ []Value) Value { return e.c.True }, // "running in the engine" (also in concrete-engine replay)
		"vpBool":       vpBool,
		"vpInt64":      func(e *Exec, _ *frame, _ *ssa.Function, a []Value) Value { return e.freshInt(argStr(e, a[0]), 64) },
		"vpInt":        func(e *Exec, _ *frame, _ *ssa.Function, a []Value) Value { return e.freshInt(argStr(e, a[0]), 64) },
		"vpUint64":     func(e *Exec, _ *frame, _ *ssa.Function, a []Value) Value { return e.freshInt(argStr(e, a[0]), 64) },
		"vpByte":       func(e *Exec, _ *frame, _ *ssa.Function, a []Value) Value { return e.freshInt(argStr(e, a[0]), 8) },
		"vpString":     vpString,
		"vpChoice":     vpChoice,
		"vpAssume":     vpAssume,
		"vpAssert":     vpAssert,
		"vpAssertKF":   vpAssertKF,
		"vpReach":      vpReach,
		"vpCatchPanic": vpCatchPanic,
		"vpAnd": func(e *Exec, _ *frame, _ *ssa.Function, a []Value) Value {
			return e.c.And(a[0].(*smt.Term), a[1].(*smt.Term))
		},
		"vpOr": func(e *Exec, _ *frame, _ *ssa.Function, a []Value) Value {
			return e.c.Or(a[0].(*smt.Term), a[1].(*smt.Term))
		},
		"vpImplies": func(e *Exec, _ *frame, _ *ssa.Function, a []Value) Value {
			return e.c.Implies(a[0].(*smt.Term), a[1].(*smt.Term))
		},
		"vpIff": func(e *Exec, _ *frame, _ *ssa.Function, a []Value) Value {
			return e.c.Eq(a[0].(*smt.Term), a[1].(*smt.Term))
		},
		"vpIteInt64": func(e *Exec, _ *frame, _ *ssa.Function, a []Value) Value {
			return e.c.Ite(a[0].(*smt.Term), a[1].(*smt.Term), a[2].(*smt.Term))
		},
		"vpIteBool": func(e *Exec, _ *frame, _ *ssa.Function, a []Value) Value {
			return e.c.Ite(a[0].(*smt.Term), a[1].(*smt.Term), a[2].(*smt.Term))
		},
		"vpIteStr":     vpIteStr,
		"vpStrEq":      func(e *Exec, _ *frame, _ *ssa.Function, a []Value) Value { return e.strEq(a[0].(Str), a[1].(Str)) },
		"vpAllBytesIn": vpAllBytesIn,
		"vpValidUTF8":  vpValidUTF8,
		"vpStub":       vpStub,
		"vpOpaque": func(e *Exec, _ *frame, _ *ssa.Function, a []Value) Value {
			e.opaquePkgs[argStr(e, a[0])] = true
			return nil
		},
		"vpReal": func(e *Exec, _ *frame, _ *ssa.Function, a []Value) Value {
			e.realFns[argStr(e, a[0])] = true
			return nil
		},
		"vpConcretize": func(e *Exec, _ *frame, _ *ssa.Function, a []Value) Value {
			return e.mkInt(e.enumerate(a[0].(*smt.Term), "vpConcretize"))
		},
		"vpDecide": func(e *Exec, _ *frame, _ *ssa.Function, a []Value) Value {
			return e.c.Bool(e.decide(a[0].(*smt.Term)))
		},
		"vpGuardedBy":  vpGuardedBy,
		"vpUnguard":    func(e *Exec, _ *frame, _ *ssa.Function, a []Value) Value { e.guards = nil; return nil },
		"vpLockEvents": vpLockEvents,
		"vpOneCriticalSection": func(e *Exec, _ *frame, _ *ssa.Function, a []Value) Value {
			n := len(e.lockLog)
			ok := n == 2 && e.lockLog[0][1] == '+' && e.lockLog[1][1] == '-' && e.lockLog[0][0] == e.lockLog[1][0]
			e.lockLog = nil
			return e.c.Bool(ok)
		},
		"vpSelectFirst": func(e *Exec, _ *frame, _ *ssa.Function, a []Value) Value {
			if b, _ := a[0].(*smt.Term).ConstBool(); b {
				e.ext["select-first"] = true
			} else {
				delete(e.ext, "select-first")
			}
			return nil
		},
		"vpBlockedIsViolation": func(e *Exec, _ *frame, _ *ssa.Function, a []Value) Value {
			e.ext["blocked-label"] = argStr(e, a[0])
			return nil
		},
		// vpUnsupported(msg): the harness' environment model does not cover what the code under
		// test just did; the path ends INCONCLUSIVE (never a verdict)
		"vpUnsupported": func(e *Exec, _ *frame, _ *ssa.Function, a []Value) Value {
			e.unsupported("%s", argStr(e, a[0]))
			return nil
		},
		"vpYield": func(e *Exec, _ *frame, _ *ssa.Function, a []Value) Value { e.yield(); return nil },
		// vpPreempt(k): from here on every schedule with at most k preemptions at synchronisation
		// operations is explored (0 switches it off: back to the canonical schedule)
		"vpPreempt": func(e *Exec, _ *frame, _ *ssa.Function, a []Value) Value {
			e.preemptBudget = int(e.concreteInt(a[0], "vpPreempt budget"))
			return nil
		},
		"vpIsOpaqueStr": func(e *Exec, _ *frame, _ *ssa.Function, a []Value) Value { return e.c.Bool(a[0].(Str).OpaqueID != 0) },
		"vpClock": func(e *Exec, _ *frame, _ *ssa.Function, a []Value) Value {
			// the k-th value the clock stub returned under that name
			name := fmt.Sprintf("%s#%d", argStr(e, a[0]), e.concreteInt(a[1], "vpClock index"))
			if v, ok := e.c.Vars[name]; ok {
				return v
			}
			if e.concrete {
				return e.c.BV(e.inputs[name], 64)
			}
			panic(pathEnd{endEngineBug, "vpClock: the clock stub has not returned " + name})
		},
		// vpJSONAppendString(dst, s, escapeHTML): runs the REAL encoding/json.appendString[string]
		// (the escaping loop of json.Marshal) on symbolic bytes.
		"vpJSONAppendString": func(e *Exec, caller *frame, _ *ssa.Function, a []Value) Value {
			fn := e.p.jsonAppendString()
			if fn == nil {
				e.unsupported("encoding/json.appendString[string] not found in the SSA program")
			}
			return e.call(caller, 0, fn, a)
		},
		"vpLiveGoroutines": func(e *Exec, _ *frame, _ *ssa.Function, a []Value) Value {
			n := 0
			for _, g := range e.gs[1:] {
				if !g.done {
					n++
				}
			}
			return e.mkInt(int64(n))
		},
		"vpReplayLabel": func(e *Exec, _ *frame, _ *ssa.Function, a []Value) Value { return a[0] },
		"vpHash64":      vpHash64,
		"vpNote": func(e *Exec, _ *frame, _ *ssa.Function, a []Value) Value {
			e.obs = append(e.obs, obsRec{tag: argStr(e, a[0])})
			return nil
		},
		"vpNoteInt64": func(e *Exec, _ *frame, _ *ssa.Function, a []Value) Value {
			e.obs = append(e.obs, obsRec{tag: argStr(e, a[0]), kind: 'i', v: a[1]})
			return nil
		},
		"vpNoteBool": func(e *Exec, _ *frame, _ *ssa.Function, a []Value) Value {
			e.obs = append(e.obs, obsRec{tag: argStr(e, a[0]), kind: 'b', v: a[1]})
			return nil
		},
		"vpNoteStr": func(e *Exec, _ *frame, _ *ssa.Function, a []Value) Value {
			e.obs = append(e.obs, obsRec{tag: argStr(e, a[0]), kind: 's', v: a[1]})
			return nil
		},
		"vpSameObject": func(e *Exec, _ *frame, _ *ssa.Function, a []Value) Value {
			x, y := a[0].(Iface), a[1].(Iface)
			if x.T == nil || y.T == nil {
				return e.c.Bool(x.T == nil && y.T == nil)
			}
			px, ok1 := x.V.(*Value)
			py, ok2 := y.V.(*Value)
			return e.c.Bool(ok1 && ok2 && px == py)
		},
	}
}

func argStr(e *Exec, v Value) string {
	s, ok := v.(Str).Concrete()
	if !ok {
		panic(pathEnd{endEngineBug, "vp primitive needs a concrete string argument"})
	}
	return s
}

func (e *Exec) freshName(base string) string {
	k := e.nameCount[base]
	e.nameCount[base]++
	return fmt.Sprintf("%s#%d", base, k)
}

func (e *Exec) freshInt(base string, w int) *smt.Term {
	name := e.freshName(base)
	return e.namedVar(name, w)
}

func (e *Exec) namedVar(name string, w int) *smt.Term {
	e.inputNames = append(e.inputNames, name)
	e.inputW[name] = w
	if e.concrete {
		v := e.inputs[name] // inputs the solver left unconstrained are absent: zero
		if w == 0 {
			return e.c.Bool(v != 0)
		}
		return e.c.BV(v, w)
	}
	return e.c.Var(name, w)
}

func vpTier(e *Exec, _ *frame, _ *ssa.Function, _ []Value) Value { return e.mkInt(int64(e.tier)) }

func vpBool(e *Exec, _ *frame, _ *ssa.Function, a []Value) Value {
	return e.namedVar(e.freshName(argStr(e, a[0])), 0)
}

func vpString(e *Exec, _ *frame, _ *ssa.Function, a []Value) Value {
	base := e.freshName(argStr(e, a[0]))
	n := int(e.concreteInt(a[1], "vpString length"))
	b := make([]*smt.Term, n)
	for i := range b {
		b[i] = e.namedVar(fmt.Sprintf("%s.%d", base, i), 8)
	}
	return Str{B: b}
}

func vpChoice(e *Exec, _ *frame, _ *ssa.Function, a []Value) Value {
	name := e.freshName(argStr(e, a[0]))
	n := int(e.concreteInt(a[1], "vpChoice n"))
	return e.mkInt(int64(e.freeChoice(name, n)))
}

func vpAssume(e *Exec, _ *frame, _ *ssa.Function, a []Value) Value {
	e.assume(a[0].(*smt.Term))
	return nil
}

func vpAssert(e *Exec, _ *frame, _ *ssa.Function, a []Value) Value {
	e.assertHolds(a[0].(*smt.Term), argStr(e, a[1]), "", nil)
	return nil
}

func vpAssertKF(e *Exec, _ *frame, _ *ssa.Function, a []Value) Value {
	e.assertHolds(a[0].(*smt.Term), argStr(e, a[1]), argStr(e, a[2]), a[3].(*smt.Term))
	return nil
}

func vpReach(e *Exec, _ *frame, _ *ssa.Function, a []Value) Value {
	e.reach[argStr(e, a[0])] = true
	return nil
}

// vpCatchPanic runs f and reports whether it panicked (the panic is swallowed).
func vpCatchPanic(e *Exec, caller *frame, _ *ssa.Function, a []Value) (ret Value) {
	saved := e.cur.fr
	depth := e.depth
	defer func() {
		if r := recover(); r != nil {
			if _, ok := r.(targetPanic); ok {
				e.cur.fr = saved
				e.depth = depth
				ret = e.c.True
				return
			}
			panic(r)
		}
	}()
	e.call(caller, 0, a[0], nil)
	return e.c.False
}

func vpIteStr(e *Exec, _ *frame, _ *ssa.Function, a []Value) Value {
	c := a[0].(*smt.Term)
	x, y := a[1].(Str), a[2].(Str)
	if b, ok := c.ConstBool(); ok {
		if b {
			return x
		}
		return y
	}
	if len(x.B) != len(y.B) || x.OpaqueID != 0 || y.OpaqueID != 0 {
		if e.decide(c) {
			return x
		}
		return y
	}
	b := make([]*smt.Term, len(x.B))
	for i := range b {
		b[i] = e.c.Ite(c, x.B[i], y.B[i])
	}
	return Str{B: b}
}

func vpAllBytesIn(e *Exec, _ *frame, _ *ssa.Function, a []Value) Value {
	s := a[0].(Str)
	set := argStr(e, a[1])
	r := e.c.True
	for _, b := range s.B {
		in := e.c.False
		for i := 0; i < len(set); i++ {
			in = e.c.Or(in, e.c.Eq(b, e.byteConst[set[i]]))
		}
		r = e.c.And(r, in)
	}
	return r
}

// vpValidUTF8 builds the term "s is valid UTF-8" without forking.
func vpValidUTF8(e *Exec, _ *frame, _ *ssa.Function, a []Value) Value {
	s := a[0].(Str)
	if cs, ok := s.Concrete(); ok {
		return e.c.Bool(utf8.ValidString(cs))
	}
	c := e.c
	n := len(s.B)
	u := func(v uint64) *smt.Term { return c.BV(v, 8) }
	inr := func(x *smt.Term, lo, hi uint64) *smt.Term {
		return c.And(c.Cmp(smt.KUle, u(lo), x), c.Cmp(smt.KUle, x, u(hi)))
	}
	// valid[i]: s[i:] is valid UTF-8; computed backwards.
	valid := make([]*smt.Term, n+1)
	valid[n] = c.True
	for i := n - 1; i >= 0; i-- {
		b0 := s.B[i]
		r := c.And(c.Cmp(smt.KUlt, b0, u(0x80)), valid[i+1])
		if i+1 < n {
			r = c.Or(r, c.AndN(inr(b0, 0xC2, 0xDF), inr(s.B[i+1], 0x80, 0xBF), valid[i+2]))
		}
		if i+2 < n {
			b1, b2 := s.B[i+1], s.B[i+2]
			lo := c.Ite(c.Eq(b0, u(0xE0)), u(0xA0), u(0x80))
			hi := c.Ite(c.Eq(b0, u(0xED)), u(0x9F), u(0xBF))
			r = c.Or(r, c.AndN(inr(b0, 0xE0, 0xEF), c.Cmp(smt.KUle, lo, b1), c.Cmp(smt.KUle, b1, hi), inr(b2, 0x80, 0xBF), valid[i+3]))
		}
		if i+3 < n {
			b1, b2, b3 := s.B[i+1], s.B[i+2], s.B[i+3]
			lo := c.Ite(c.Eq(b0, u(0xF0)), u(0x90), u(0x80))
			hi := c.Ite(c.Eq(b0, u(0xF4)), u(0x8F), u(0xBF))
			r = c.Or(r, c.AndN(inr(b0, 0xF0, 0xF4), c.Cmp(smt.KUle, lo, b1), c.Cmp(smt.KUle, b1, hi), inr(b2, 0x80, 0xBF), inr(b3, 0x80, 0xBF), valid[i+4]))
		}
		valid[i] = r
	}
	return valid[0]
}

func vpStub(e *Exec, _ *frame, _ *ssa.Function, a []Value) Value {
	name := argStr(e, a[0])
	f := a[1].(Iface)
	if f.T == nil {
		delete(e.stubs, name)
		return nil
	}
	e.stubs[name] = f.V
	return nil
}

// vpHash64(tag, parts...) is an uninterpreted function made functionally
// consistent by Ackermann constraints against earlier applications.
func vpHash64(e *Exec, _ *frame, _ *ssa.Function, a []Value) Value {
	tag := argStr(e, a[0])
	parts := a[1].(Slice).A
	type app struct {
		parts []Value
		res   *smt.Term
	}
	key := "hash:" + tag
	var apps []app
	if v, ok := e.ext[key]; ok {
		apps = v.([]app)
	}
	res := e.freshInt("hash."+tag, 64)
	for _, o := range apps {
		if len(o.parts) != len(parts) {
			continue
		}
		same := e.c.True
		for i := range parts {
			same = e.c.And(same, e.strEq(o.parts[i].(Str), parts[i].(Str)))
		}
		e.assume(e.c.Implies(same, e.c.Eq(o.res, res)))
	}
	apps = append(apps, app{parts: parts, res: res})
	e.ext[key] = apps
	return res
}

var _ = types.Typ
