#!/bin/bash
# tools_seed_eval.sh <patch> <property>...   apply a seeded change to /repo, run the quick checks, ALWAYS undo.
set -u
patch="$1"; shift
# SEED_REPO=<dir>: evaluate in a scratch worktree of /repo created at <dir> (removed afterwards)
# instead of /repo itself (used while other checks are running on /repo).
repoarg=()
if [ -n "${SEED_REPO:-}" ]; then
  git -C /repo worktree remove --force "$SEED_REPO" 2>/dev/null; rm -rf "$SEED_REPO"
  git -C /repo worktree add -q --detach "$SEED_REPO" HEAD || exit 2
  cd "$SEED_REPO" || exit 2
  git apply "$patch" || { echo "patch does not apply"; git -C /repo worktree remove --force "$SEED_REPO"; exit 2; }
  trap 'git -C /repo worktree remove --force "$SEED_REPO"; git -C /repo worktree prune' EXIT
  repoarg=(-repo "$SEED_REPO")
else
cd /repo || exit 2
if [ -n "$(git status --porcelain --untracked-files=no)" ]; then echo "/repo not clean"; exit 2; fi
git apply "$patch" || { echo "patch does not apply"; exit 2; }
trap 'git -C /repo checkout -- . ; git -C /repo clean -fdq -- . 2>/dev/null' EXIT
fi
(go build ./... ) || { echo "BUILD FAILS"; exit 2; }
cd /verif
for p in "$@"; do
  # the evidence files under /verif/evidence must describe the UNCHANGED tree: keep them
  cp -f evidence/$p.json /tmp/evidence.$p.bak 2>/dev/null
  out=$(./check "$p" --tier "${SEED_TIER:-quick}" "${repoarg[@]}" 2>/dev/null); rc=$?
  cp -f /tmp/evidence.$p.bak evidence/$p.json 2>/dev/null
  echo "== $p exit=$rc"
  echo "$out" | grep -E "^(VIOLATION|KNOWN-FINDING|INCONCLUSIVE|PASS|  harness=)" | cut -c1-330 | head -8
done
