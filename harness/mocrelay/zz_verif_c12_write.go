package mocrelay

import (
	"context"

	"github.com/coder/websocket"
)

func init() {
	vpHarnesses["vpH_C12_write"] = vpH_C12_write
}

// C12 write loop: every message the handler emits is written as one text frame
// carrying its JSON encoding, in emission order.
func vpH_C12_write() {
	if !vpSymbolic() {
		vpReach("end")
		return
	}
	k := 1 + vpChoice("k", 3)
	send := make(chan ServerMsg, k)
	var msgs []ServerMsg
	for i := 0; i < k; i++ {
		m := vpGenServerMsg("m")
		msgs = append(msgs, m)
		send <- m
	}
	ctx, cancel := context.WithCancel(context.Background())
	type frame struct {
		typ websocket.MessageType
		tok byte
	}
	var frames []frame
	var marshalled []any
	vpStub("encoding/json.Marshal", func(v any) ([]byte, error) {
		marshalled = append(marshalled, v)
		return []byte{byte(len(marshalled))}, nil
	})
	vpStub("(*github.com/coder/websocket.Conn).Write", func(c *websocket.Conn, wctx context.Context, typ websocket.MessageType, p []byte) error {
		frames = append(frames, frame{typ, p[0]})
		if len(frames) == k {
			cancel() // the session ends after the last frame
		}
		return nil
	})
	relay := NewRelay(nil, &RelayOption{SendTimeout: 0, PingDuration: 0})
	err := relay.serveWriteLoop(ctx, nil, send)
	vpAssert(err != nil, "C12.write-loop-ends-on-cancel")
	vpAssert(len(frames) == k && len(marshalled) == k, "C12.one-frame-per-message")
	for i := 0; i < k && i < len(frames) && i < len(marshalled); i++ {
		vpAssert(frames[i].typ == websocket.MessageText, "C12.text-frame")
		vpAssert(int(frames[i].tok) == i+1, "C12.frame-carries-the-encoding-in-order")
		vpAssert(vpSameObject(marshalled[i], msgs[i]), "C12.encoded-in-emission-order")
	}
	vpReach("end")
}
