package smt

import (
	"bufio"
	"fmt"
	"io"
	"os/exec"
	"strconv"
	"strings"
	"time"
)

type Result int

const (
	Unknown Result = iota
	Sat
	Unsat
)

func (r Result) String() string {
	switch r {
	case Sat:
		return "sat"
	case Unsat:
		return "unsat"
	}
	return "unknown"
}

// Solver is one live SMT solver process driven through a pipe.
type Solver struct {
	Kind     string
	cmd      *exec.Cmd
	in       *bufio.Writer
	inc      io.WriteCloser
	out      *bufio.Reader
	declared map[string]int // name -> width
	Depth    int

	Queries  int
	NSat     int
	NUnsat   int
	NUnknown int
	Errors   []string
	Time     time.Duration

	Log io.Writer // optional transcript of everything sent
}

// StartSolver launches z3 (4.8.12), z3-new (5.1) or cvc5 with a per-query timeout.
func StartSolver(kind string, timeoutMs int) (*Solver, error) {
	var cmd *exec.Cmd
	switch kind {
	case "z3":
		cmd = exec.Command("z3", "-in", "-t:"+strconv.Itoa(timeoutMs))
	case "z3-new":
		cmd = exec.Command("z3-new", "-in", "-t:"+strconv.Itoa(timeoutMs))
	case "cvc5":
		cmd = exec.Command("cvc5", "--incremental", "--lang", "smt2", "--tlimit-per="+strconv.Itoa(timeoutMs))
	default:
		return nil, fmt.Errorf("unknown solver %q", kind)
	}
	inp, err := cmd.StdinPipe()
	if err != nil {
		return nil, err
	}
	outp, err := cmd.StdoutPipe()
	if err != nil {
		return nil, err
	}
	cmd.Stderr = cmd.Stdout
	if err := cmd.Start(); err != nil {
		return nil, err
	}
	s := &Solver{Kind: kind, cmd: cmd, inc: inp, in: bufio.NewWriterSize(inp, 1<<16),
		out: bufio.NewReaderSize(outp, 1<<16), declared: map[string]int{}}
	if kind == "cvc5" {
		s.send("(set-logic QF_BV)")
	}
	s.send("(set-option :global-declarations true)")
	s.send("(set-option :produce-models true)")
	// sanity round trip
	s.send("(echo \"ready\")")
	s.in.Flush()
	line, err := s.out.ReadString('\n')
	if err != nil || !strings.Contains(line, "ready") {
		return nil, fmt.Errorf("solver %s did not start: %q %v", kind, line, err)
	}
	return s, nil
}

func (s *Solver) send(cmd string) {
	if s.Log != nil {
		io.WriteString(s.Log, cmd)
		io.WriteString(s.Log, "\n")
	}
	s.in.WriteString(cmd)
	s.in.WriteByte('\n')
}

func (s *Solver) Close() {
	if s.cmd == nil {
		return
	}
	s.send("(exit)")
	s.in.Flush()
	s.inc.Close()
	done := make(chan struct{})
	go func() { s.cmd.Wait(); close(done) }()
	select {
	case <-done:
	case <-time.After(2 * time.Second):
		s.cmd.Process.Kill()
	}
	s.cmd = nil
}

func (s *Solver) Push() {
	s.send("(push 1)")
	s.Depth++
}

func (s *Solver) Pop(n int) {
	if n <= 0 {
		return
	}
	s.send("(pop " + strconv.Itoa(n) + ")")
	s.Depth -= n
}

func (s *Solver) declareVars(t *Term) {
	set := map[*Term]bool{}
	CollectVars(t, set, map[*Term]bool{})
	for v := range set {
		if w, ok := s.declared[v.Name]; ok {
			if w != v.W {
				panic(fmt.Sprintf("solver: variable %s used with widths %d and %d", v.Name, w, v.W))
			}
			continue
		}
		s.declared[v.Name] = v.W
		s.send("(declare-const " + QuoteName(v.Name) + " " + sortStr(v.W) + ")")
	}
}

func (s *Solver) Assert(t *Term) {
	if !t.IsBool() {
		panic("solver: asserting non-Boolean term")
	}
	s.declareVars(t)
	s.send("(assert " + t.String() + ")")
}

// Check runs check-sat on the current stack.
func (s *Solver) Check() Result {
	s.send("(check-sat)")
	start := time.Now()
	s.in.Flush()
	r := Unknown
	for {
		line, err := s.out.ReadString('\n')
		if err != nil {
			s.Errors = append(s.Errors, "solver pipe: "+err.Error())
			break
		}
		line = strings.TrimSpace(line)
		if line == "" {
			continue
		}
		switch line {
		case "sat":
			r = Sat
		case "unsat":
			r = Unsat
		case "unknown", "timeout":
			r = Unknown
		default:
			// any (error ...) or stray output makes the answer inconclusive
			s.Errors = append(s.Errors, line)
			if strings.HasPrefix(line, "(error") {
				continue // the verdict line still follows
			}
			continue
		}
		break
	}
	s.Time += time.Since(start)
	s.Queries++
	switch r {
	case Sat:
		s.NSat++
	case Unsat:
		s.NUnsat++
	default:
		s.NUnknown++
	}
	return r
}

// CheckWith decides satisfiability of (stack ∧ t) without changing the stack.
func (s *Solver) CheckWith(t *Term) Result {
	if b, ok := t.ConstBool(); ok && !b {
		return Unsat
	}
	s.declareVars(t)
	s.send("(push 1)")
	s.send("(assert " + t.String() + ")")
	r := s.Check()
	s.send("(pop 1)")
	return r
}

// CheckWithModel is CheckWith that also returns a model of the given variables when sat.
func (s *Solver) CheckWithModel(t *Term, vars []*Term) (Result, Model) {
	s.declareVars(t)
	s.send("(push 1)")
	s.send("(assert " + t.String() + ")")
	r := s.Check()
	var m Model
	if r == Sat {
		m = s.GetModel(vars)
	}
	s.send("(pop 1)")
	return r, m
}

// GetModel queries values of vars after a sat answer.
func (s *Solver) GetModel(vars []*Term) Model {
	m := Model{}
	if len(vars) == 0 {
		return m
	}
	var sb strings.Builder
	sb.WriteString("(get-value (")
	for _, v := range vars {
		if _, ok := s.declared[v.Name]; !ok {
			s.declared[v.Name] = v.W
			s.send("(declare-const " + QuoteName(v.Name) + " " + sortStr(v.W) + ")")
		}
		sb.WriteString(QuoteName(v.Name))
		sb.WriteByte(' ')
	}
	sb.WriteString("))")
	s.send(sb.String())
	s.in.Flush()
	// read balanced s-expression
	depth := 0
	started := false
	var buf strings.Builder
	for !started || depth > 0 {
		line, err := s.out.ReadString('\n')
		if err != nil {
			s.Errors = append(s.Errors, "solver pipe: "+err.Error())
			return m
		}
		inBar := false
		for _, ch := range line {
			switch {
			case ch == '|':
				inBar = !inBar
			case inBar:
			case ch == '(':
				depth++
				started = true
			case ch == ')':
				depth--
			}
		}
		buf.WriteString(line)
	}
	parseValues(buf.String(), m)
	return m
}

// parseValues parses "((|a| #x01) (b true) ...)".
func parseValues(s string, m Model) {
	var toks []string
	i, n := 0, len(s)
	for i < n {
		ch := s[i]
		switch {
		case ch == '(' || ch == ')':
			i++
		case ch == ' ' || ch == '\n' || ch == '\t' || ch == '\r':
			i++
		case ch == '|':
			j := strings.IndexByte(s[i+1:], '|')
			if j < 0 {
				return
			}
			toks = append(toks, s[i+1:i+1+j])
			i = i + j + 2
		default:
			k := i
			for k < n && s[k] != ')' && s[k] != '(' && s[k] != ' ' && s[k] != '\n' {
				k++
			}
			toks = append(toks, s[i:k])
			i = k
		}
	}
	for t := 0; t+1 < len(toks); t += 2 {
		name, tok := toks[t], toks[t+1]
		switch {
		case tok == "true":
			m[name] = 1
		case tok == "false":
			m[name] = 0
		case strings.HasPrefix(tok, "#x"):
			v, _ := strconv.ParseUint(tok[2:], 16, 64)
			m[name] = v
		case strings.HasPrefix(tok, "#b"):
			v, _ := strconv.ParseUint(tok[2:], 2, 64)
			m[name] = v
		}
	}
}
