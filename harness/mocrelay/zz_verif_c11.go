package mocrelay

func init() {
	vpHarnesses["vpH_C11_validKind"] = vpH_C11_validKind
	vpHarnesses["vpH_C11_validHex"] = vpH_C11_validHex
}

// C11 O1: validKind(k) <=> 0 <= k <= 65535 for every int64 (one query family).
func vpH_C11_validKind() {
	k := vpInt64("kind")
	vpAssert(validKind(k) == vpAnd(0 <= k, k <= 65535), "C11.validKind")
	vpReach("end")
}

// C11 O1: validID/validPubkey/validSig <=> exact length and every byte in 0-9a-f.
func vpH_C11_validHex() {
	which := vpChoice("which", 3)
	want := []int{64, 64, 128}[which]
	lens := []int{0, 1, want - 1, want, want + 1}
	n := lens[vpChoice("len", len(lens))]
	s := vpString("s", n)
	var got bool
	switch which {
	case 0:
		got = validID(s)
	case 1:
		got = validPubkey(s)
	default:
		got = validSig(s)
	}
	vpAssert(got == vpAnd(n == want, vpAllBytesIn(s, "0123456789abcdef")), "C11.validHex")
	vpReach("end")
}
