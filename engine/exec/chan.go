package exec

import (
	"fmt"
	"go/token"
	"go/types"
	"runtime/debug"

	"golang.org/x/tools/go/ssa"
)

// ---------------------------------------------------------------------------
// Goroutines: real Go goroutines passing a baton, so exactly one runs at a
// time. The schedule is canonical: the running goroutine continues until it
// blocks or ends; then the lowest-numbered runnable goroutine continues.
// This is ONE schedule; nothing is claimed about other interleavings.

type G struct {
	id    int
	e     *Exec
	wake  chan struct{}
	fr    *frame
	done  bool
	ready func() bool // nil: runnable
	fresh bool
}

func (e *Exec) spawn(pos token.Pos, fn Value, args []Value) {
	g := &G{id: len(e.gs), e: e, wake: make(chan struct{}, 1), fresh: true}
	e.gs = append(e.gs, g)
	go func() {
		<-g.wake
		defer func() {
			r := recover()
			g.done = true
			if r != nil && !e.aborting {
				switch r := r.(type) {
				case pathEnd:
					if r.kind != endAbort {
						pe := r
						e.abortEnd = &pe
					}
				case targetPanic:
					e.abortWith = r
				case lenientFail:
					e.abortEnd = &pathEnd{endUnsupported, r.msg}
				default:
					e.abortEnd = &pathEnd{endEngineBug, fmt.Sprintf("goroutine %d: %v\n%s", g.id, r, clip(string(debug.Stack()), 3000))}
				}
				e.aborting = true
			}
			// hand the baton on
			if e.aborting {
				e.gs[0].signal()
				return
			}
			e.scheduleFrom(g)
		}()
		if e.aborting {
			panic(pathEnd{endAbort, ""})
		}
		g.fresh = false
		e.cur = g
		e.call(nil, pos, fn, args)
	}()
}

func (g *G) signal() {
	select {
	case g.wake <- struct{}{}:
	default:
	}
}

// scheduleFrom transfers control away from g (which is done): pick the next runnable goroutine.
func (e *Exec) scheduleFrom(g *G) {
	next := e.pickRunnable(nil)
	if next == nil {
		// everyone is blocked: deadlock; wake main to report
		e.aborting = true
		if e.abortEnd == nil {
			e.abortEnd = &pathEnd{endBlocked, "all goroutines blocked"}
		}
		e.gs[0].signal()
		return
	}
	e.cur = next
	next.signal()
}

func (e *Exec) pickRunnable(except *G) *G {
	for _, g := range e.gs {
		if g.done || g == except {
			continue
		}
		if g.ready == nil || g.ready() {
			return g
		}
	}
	return nil
}

// block suspends the current goroutine until ready() holds.
func (e *Exec) block(ready func() bool, what string) {
	g := e.cur
	if ready() {
		return
	}
	g.ready = ready
	for {
		next := e.pickRunnable(g)
		if next == nil {
			if ready() {
				break
			}
			// deadlock
			if g.id == 0 {
				panic(pathEnd{endBlocked, "all goroutines blocked; main blocked in " + what + e.where()})
			}
			e.aborting = true
			e.abortEnd = &pathEnd{endBlocked, fmt.Sprintf("all goroutines blocked (goroutine %d in %s)", g.id, what)}
			e.gs[0].signal()
			<-g.wake
			panic(pathEnd{endAbort, ""})
		}
		e.cur = next
		next.signal()
		<-g.wake
		if e.aborting {
			if g.id == 0 {
				e.raiseAbort()
			}
			panic(pathEnd{endAbort, ""})
		}
		e.cur = g
		if ready() {
			break
		}
	}
	g.ready = nil
}

// raiseAbort is called on the main goroutine when another goroutine ended the path.
func (e *Exec) raiseAbort() {
	if e.abortWith != nil {
		w := e.abortWith
		e.abortWith = nil
		panic(w)
	}
	if e.abortEnd != nil {
		panic(*e.abortEnd)
	}
	panic(pathEnd{endEngineBug, "abort without reason"})
}

// yield lets other runnable goroutines run (runtime.Gosched, time.Sleep).
func (e *Exec) yield() {
	g := e.cur
	next := e.pickRunnable(g)
	if next == nil {
		return
	}
	g.ready = func() bool { return true }
	e.cur = next
	next.signal()
	<-g.wake
	if e.aborting {
		if g.id == 0 {
			e.raiseAbort()
		}
		panic(pathEnd{endAbort, ""})
	}
	e.cur = g
	g.ready = nil
}

// preemptPoint: bounded schedule exploration (vpPreempt(k)). At every synchronisation
// operation (mutex lock/unlock, atomic operation, channel operation) the running goroutine
// may be preempted in favour of any other runnable goroutine; which one (or none) is a free
// choice, so every schedule with at most k preemptions is a path of its own.
func (e *Exec) preemptPoint() {
	if e.preemptBudget <= 0 || e.aborting || e.cur == nil {
		return
	}
	g := e.cur
	var cands []*G
	for _, o := range e.gs {
		if o.done || o == g {
			continue
		}
		if o.ready == nil || o.ready() {
			cands = append(cands, o)
		}
	}
	if len(cands) == 0 {
		return
	}
	k := e.freeChoice(e.freshName("preempt"), len(cands)+1)
	if k == 0 {
		return
	}
	e.preemptBudget--
	e.preemptions++
	next := cands[k-1]
	g.ready = func() bool { return true }
	e.cur = next
	next.signal()
	<-g.wake
	if e.aborting {
		if g.id == 0 {
			e.raiseAbort()
		}
		panic(pathEnd{endAbort, ""})
	}
	e.cur = g
	g.ready = nil
}

// killGoroutines unwinds every goroutine that is still alive at the end of a path.
func (e *Exec) killGoroutines() {
	e.aborting = true
	for _, g := range e.gs[1:] {
		for !g.done {
			g.signal()
			// the goroutine panics with endAbort and signals main
			<-e.gs[0].wake
		}
	}
}

// ---------------------------------------------------------------------------
// Channels

type Chan struct {
	id     int
	cap    int
	buf    []Value
	closed bool
	elemT  types.Type
	recvq  []*waiter
	sendq  []*waiter
	never  bool // harness-made: never ready
	sink   bool // harness-made: always accepts, logs
	log    []Value
}

type waiter struct {
	sel  *selState
	cas  int
	val  Value
	send bool
}

type selState struct {
	done     bool
	chosen   int
	recvVal  Value
	recvOK   bool
	panicMsg string
}

func (e *Exec) newChan(n int, t types.Type) *Chan {
	e.uniq++
	var et types.Type
	if t != nil {
		et = t.Underlying().(*types.Chan).Elem()
	}
	return &Chan{id: e.uniq, cap: n, elemT: et}
}

func dequeueLive(q *[]*waiter) *waiter {
	for len(*q) > 0 {
		w := (*q)[0]
		*q = (*q)[1:]
		if !w.sel.done {
			return w
		}
	}
	return nil
}

func hasLive(q []*waiter) bool {
	for _, w := range q {
		if !w.sel.done {
			return true
		}
	}
	return false
}

// trySend attempts a non-blocking send; reports success.
func (e *Exec) trySend(ch *Chan, v Value) bool {
	if ch.closed {
		e.runtimePanic("send on closed channel")
	}
	if ch.sink {
		ch.log = append(ch.log, copyVal(v))
		return true
	}
	if ch.never {
		return false
	}
	if w := dequeueLive(&ch.recvq); w != nil {
		w.sel.done = true
		w.sel.chosen = w.cas
		w.sel.recvVal = copyVal(v)
		w.sel.recvOK = true
		return true
	}
	if len(ch.buf) < ch.cap {
		ch.buf = append(ch.buf, copyVal(v))
		return true
	}
	return false
}

// tryRecv attempts a non-blocking receive.
func (e *Exec) tryRecv(ch *Chan) (v Value, ok bool, done bool) {
	if ch.never {
		return nil, false, false
	}
	if len(ch.buf) > 0 {
		v = ch.buf[0]
		ch.buf = ch.buf[1:]
		// a blocked sender can now move its value into the buffer
		if w := dequeueLive(&ch.sendq); w != nil {
			ch.buf = append(ch.buf, w.val)
			w.sel.done = true
			w.sel.chosen = w.cas
		}
		return v, true, true
	}
	if w := dequeueLive(&ch.sendq); w != nil {
		w.sel.done = true
		w.sel.chosen = w.cas
		return w.val, true, true
	}
	if ch.closed {
		return e.zero(ch.elemT), false, true
	}
	return nil, false, false
}

func (e *Exec) chanSend(ch *Chan, v Value) {
	e.preemptPoint()
	if ch == nil {
		e.block(func() bool { return false }, "send on nil channel")
	}
	if e.trySend(ch, v) {
		return
	}
	st := &selState{}
	ch.sendq = append(ch.sendq, &waiter{sel: st, val: copyVal(v), send: true})
	e.block(func() bool { return st.done }, "channel send")
	if st.panicMsg != "" {
		e.runtimePanic(st.panicMsg)
	}
}

func (e *Exec) chanRecv(ch *Chan, commaOk bool, elemT types.Type) Value {
	e.preemptPoint()
	if ch == nil {
		e.block(func() bool { return false }, "receive from nil channel")
	}
	v, ok, done := e.tryRecv(ch)
	if !done {
		st := &selState{}
		ch.recvq = append(ch.recvq, &waiter{sel: st})
		e.block(func() bool { return st.done }, "channel receive")
		v, ok = st.recvVal, st.recvOK
		if !ok {
			v = e.zero(elemT)
		}
	}
	if commaOk {
		return Tuple{v, e.c.Bool(ok)}
	}
	return v
}

func (e *Exec) chanClose(ch *Chan) {
	if ch == nil {
		e.runtimePanic("close of nil channel")
	}
	if ch.closed {
		e.runtimePanic("close of closed channel")
	}
	ch.closed = true
	for {
		w := dequeueLive(&ch.recvq)
		if w == nil {
			break
		}
		w.sel.done = true
		w.sel.chosen = w.cas
		w.sel.recvOK = false
	}
	for {
		w := dequeueLive(&ch.sendq)
		if w == nil {
			break
		}
		w.sel.done = true
		w.sel.chosen = w.cas
		w.sel.panicMsg = "send on closed channel"
	}
}

// selectOp implements ssa.Select in the sequential channel model.
func (e *Exec) selectOp(fr *frame, instr *ssa.Select) Value {
	e.preemptPoint()
	type cs struct {
		ch   *Chan
		send bool
		val  Value
	}
	var cases []cs
	for _, st := range instr.States {
		c := cs{send: st.Dir == types.SendOnly}
		c.ch, _ = fr.get(st.Chan).(*Chan)
		if c.send {
			c.val = fr.get(st.Send)
		}
		cases = append(cases, c)
	}
	// which cases are ready now?
	var ready []int
	for i, c := range cases {
		if c.ch == nil || c.ch.never {
			continue
		}
		if c.send {
			if c.ch.closed || c.ch.sink || hasLive(c.ch.recvq) || len(c.ch.buf) < c.ch.cap {
				ready = append(ready, i)
			}
		} else if len(c.ch.buf) > 0 || hasLive(c.ch.sendq) || c.ch.closed {
			ready = append(ready, i)
		}
	}
	chosen := -1
	var recvVal Value
	recvOK := false
	switch {
	case len(ready) > 0:
		k := 0
		if len(ready) > 1 {
			k = e.selectPick(len(ready))
		}
		chosen = ready[k]
		c := cases[chosen]
		if c.send {
			if !e.trySend(c.ch, c.val) {
				panic(pathEnd{endEngineBug, "select: ready send failed"})
			}
		} else {
			v, ok, done := e.tryRecv(c.ch)
			if !done {
				panic(pathEnd{endEngineBug, "select: ready recv failed"})
			}
			recvVal, recvOK = v, ok
		}
	case !instr.Blocking:
		chosen = -1
	default:
		st := &selState{}
		for i, c := range cases {
			if c.ch == nil || c.ch.never {
				continue
			}
			w := &waiter{sel: st, cas: i, send: c.send}
			if c.send {
				w.val = copyVal(c.val)
				c.ch.sendq = append(c.ch.sendq, w)
			} else {
				c.ch.recvq = append(c.ch.recvq, w)
			}
		}
		e.block(func() bool { return st.done }, "select")
		if st.panicMsg != "" {
			e.runtimePanic(st.panicMsg)
		}
		chosen = st.chosen
		recvVal, recvOK = st.recvVal, st.recvOK
	}
	r := Tuple{e.mkInt(int64(chosen)), e.c.Bool(recvOK)}
	for i, st := range instr.States {
		if st.Dir == types.RecvOnly {
			var v Value
			if i == chosen && recvOK {
				v = recvVal
			} else {
				v = e.zero(st.Chan.Type().Underlying().(*types.Chan).Elem())
			}
			r = append(r, v)
		}
	}
	return r
}

// selectPick chooses among several ready select cases: by default every
// alternative is explored (a free choice); harnesses may pin the first.
func (e *Exec) selectPick(n int) int {
	if e.ext["select-first"] != nil {
		return 0
	}
	e.uniq++
	name := fmt.Sprintf("select#%d", e.nameCount["select"])
	e.nameCount["select"]++
	return e.freeChoice(name, n)
}

// ---------------------------------------------------------------------------
// Mutex state (sync intrinsics use this)

type lockState struct {
	writer  bool
	readers int
	holder  int
}
