package mocrelay

import (
	"context"
	"fmt"
)

func init() {
	vpHarnesses["vpH_C07_router"] = vpH_C07_router
}

type vpGhostSub struct {
	id string
	fs []*ReqFilter
}

// C07 registry kernel: every registry mutation and every publication is one
// call of router.recv / subs.UnsubscribeAll; histories of such calls over
// several connections are explored, and after every EVENT each connection's
// channel is compared with a ghost registry.
func vpH_C07_router() {
	vpBlockedIsViolation("blocked:C07.publisher-delayed")
	buflen := 1 + vpChoice("buflen", 2)
	router := NewRouterHandler(buflen)
	nconn := 2
	if vpTier() > 0 {
		nconn = 3
	}
	ctx := context.Background()
	chans := make([]chan ServerMsg, nconn)
	reqIDs := make([]string, nconn)
	ghost := make([][]vpGhostSub, nconn)
	guarded := make([]bool, nconn)
	for i := range chans {
		chans[i] = make(chan ServerMsg, buflen)
		reqIDs[i] = fmt.Sprintf("conn-%d", i)
	}
	vpGuardedBy(router.subs.subs, &router.subs.subs.mu, "safeMap", "subscriber")
	steps := vpSteps(3, 4)
	nev := 0
	for k := 0; k < steps; k++ {
		c := vpChoice("conn", nconn)
		switch vpChoice("op", 5) {
		case 0: // REQ (replaces a subscription of the same id)
			sub := vpSym1("sub")
			var f *ReqFilter
			switch vpChoice("filter", 5) {
			case 4: // two filters (built below)
			case 3: // a limit bounds the stored events of a REQ, never the live ones
				l := vpInt64("limit")
				vpAssume(l >= 0)
				f = &ReqFilter{Limit: &l}
			case 0:
				f = &ReqFilter{}
			case 1:
				f = &ReqFilter{Kinds: []int64{vpInt64("fkind")}}
			case 2:
				s, u := vpInt64("since"), vpInt64("until")
				f = &ReqFilter{Since: &s, Until: &u}
			}
			msg := &ClientReqMsg{SubscriptionID: sub, ReqFilters: []*ReqFilter{f}}
			if f == nil { // a filter list: a match of any member counts
				msg.ReqFilters = []*ReqFilter{{Kinds: []int64{vpInt64("fkind")}}, {Authors: []string{vpSym1("fauthor")}}}
			}
			queued := len(chans[c])
			out := router.recv(ctx, reqIDs[c], msg, chans[c])
			eose, isE := out.(*ServerEOSEMsg)
			answered := isE && eose.SubscriptionID == sub
			if !isE && isNilServerMsg(out) && len(chans[c]) == queued+1 {
				// the statement does not say by which way the EOSE travels: one queued on the
				// connection's own channel answers the REQ as well
				for j := 0; j <= queued; j++ {
					m := <-chans[c]
					chans[c] <- m
					if q, ok := m.(*ServerEOSEMsg); ok && j == queued && q.SubscriptionID == sub {
						answered = true
					}
				}
			}
			vpAssert(answered, "C07.req-answered-by-eose")
			if inner, ok := router.subs.subs.TryGet(reqIDs[c]); ok && !guarded[c] {
				guarded[c] = true
				vpGuardedBy(inner, &inner.mu, "subscriber")
			}
			replaced := false
			for i := range ghost[c] {
				if ghost[c][i].id == sub {
					ghost[c][i].fs = msg.ReqFilters
					replaced = true
				}
			}
			if !replaced {
				ghost[c] = append(ghost[c], vpGhostSub{sub, msg.ReqFilters})
			}
		case 1: // CLOSE
			sub := vpSym1("sub")
			out := router.recv(ctx, reqIDs[c], &ClientCloseMsg{SubscriptionID: sub}, chans[c])
			vpAssert(isNilServerMsg(out), "C07.close-unanswered")
			for i := range ghost[c] {
				if ghost[c][i].id == sub {
					ghost[c] = append(ghost[c][:i:i], ghost[c][i+1:]...)
					break
				}
			}
		case 2: // EVENT published by connection c
			ev := &Event{ID: fmt.Sprintf("e%d", nev), Pubkey: "A", Kind: vpInt64("kind"), CreatedAt: vpInt64("at"), Tags: []Tag{}}
			nev++
			before := make([]int, nconn)
			for i := range chans {
				before[i] = len(chans[i])
			}
			out := router.recv(ctx, reqIDs[c], &ClientEventMsg{Event: ev}, chans[c])
			ok, isOK := out.(*ServerOKMsg)
			vpAssert(isOK && ok.Accepted && ok.EventID == ev.ID, "C07.event-answered-by-accepting-ok")
			for i := range chans {
				var want []string
				for _, g := range ghost[i] {
					if specMatchAny(g.fs, ev) {
						want = append(want, g.id)
					}
				}
				free := buflen - before[i]
				exp := len(want)
				if exp > free {
					exp = free // only this connection's own deliveries beyond its buffer are dropped
				}
				vpAssert(len(chans[i])-before[i] == exp, "C07.delivered-to-exactly-the-open-matching-subscriptions")
				// inspect the new messages (rotate the buffer once)
				n := len(chans[i])
				var seen []string
				for j := 0; j < n; j++ {
					m := <-chans[i]
					chans[i] <- m
					if j < before[i] {
						continue
					}
					em, isEv := m.(*ServerEventMsg)
					vpAssert(isEv && em.Event == ev, "C07.delivery-carries-the-event")
					if !isEv {
						continue
					}
					vpAssert(vpIndexOf(want, em.SubscriptionID) >= 0, "C07.delivery-labelled-with-an-open-matching-subscription")
					vpAssert(vpIndexOf(seen, em.SubscriptionID) < 0, "C07.at-most-once-per-subscription")
					seen = append(seen, em.SubscriptionID)
				}
			}
		case 3: // the connection finishes
			router.subs.UnsubscribeAll(reqIDs[c])
			ghost[c] = nil
			guarded[c] = true // a later REQ of this connection creates a fresh inner map: not monitored again
		case 4: // the connection's reader drains one message
			vpAssume(len(chans[c]) > 0)
			<-chans[c]
		}
	}
	// COUNT is answered by a COUNT reply
	cnt, isC := router.recv(ctx, reqIDs[0], &ClientCountMsg{SubscriptionID: "c", ReqFilters: []*ReqFilter{{}}}, chans[0]).(*ServerCountMsg)
	vpAssert(isC && cnt.SubscriptionID == "c", "C07.count-answered")
	vpReach("end")
}
