package mocrelay

import (
	"context"
	"strings"
)

func init() {
	vpHarnesses["vpH_C09_public"] = vpH_C09_public
	vpHarnesses["vpH_C08_public"] = vpH_C08_public
}

// (kept in its own file and restricted to the exported API - NewMergeHandler and the
// Handler interface - so that a change to the merge handler's unexported seams
// cannot make it unavailable)

// vpMergeChild is a scripted child relay: a sequential Handler that answers every
// EVENT with one OK (its own verdict and text), every COUNT with one count and every
// REQ with its stored events (newest first, as a relay does) followed by EOSE.
type vpMergeChild struct {
	accept bool
	texts  []string // text of the k-th OK this child sends
	counts []uint64 // value of the k-th COUNT reply this child sends
	stored []*Event
	got    int
}

func (c *vpMergeChild) text(k int) string {
	if k < len(c.texts) {
		return c.texts[k]
	}
	return ""
}

func (c *vpMergeChild) count(k int) uint64 {
	if k < len(c.counts) {
		return c.counts[k]
	}
	return 0
}

func (c *vpMergeChild) ServeNostr(ctx context.Context, send chan<- ServerMsg, recv <-chan ClientMsg) error {
	put := func(m ServerMsg) bool {
		select {
		case <-ctx.Done():
			return false
		case send <- m:
			return true
		}
	}
	for {
		select {
		case <-ctx.Done():
			return ctx.Err()
		case m, ok := <-recv:
			if !ok {
				return ErrRecvClosed
			}
			k := c.got
			c.got++
			switch m := m.(type) {
			case *ClientEventMsg:
				prefix := ""
				if !c.accept {
					prefix = MachineReadablePrefixBlocked
				}
				if !put(NewServerOKMsg(m.Event.ID, c.accept, prefix, c.text(k))) {
					return ctx.Err()
				}
			case *ClientCountMsg:
				if !put(NewServerCountMsg(m.SubscriptionID, c.count(k), nil)) {
					return ctx.Err()
				}
			case *ClientReqMsg:
				for _, ev := range c.stored {
					if !put(NewServerEventMsg(m.SubscriptionID, ev)) {
						return ctx.Err()
					}
				}
				if !put(NewServerEOSEMsg(m.SubscriptionID)) {
					return ctx.Err()
				}
			}
		}
	}
}

func vpMergeSettle() {
	for i := 0; i < 40; i++ {
		vpYield()
	}
}

// C09 through the public API: a real MergeHandler.ServeNostr session (its goroutines
// and channels: handleRecv, broadcast, one mergeSend per child, preSendCh, handleSend)
// around two or three scripted children with free verdicts, texts and counts. The
// client pipelines two requests (EVENT/COUNT, distinct ids) without waiting; the
// scheduler is part of the path (vpPreempt: every schedule with at most k preemptions
// at a channel/mutex operation). At quiescence: exactly one OK per EVENT, accepting
// iff every child accepted, its text beginning with the lowest-index rejecting
// child's text; exactly one COUNT per COUNT request carrying the maximum; nothing else.
func vpH_C09_public() {
	if !vpSymbolic() {
		vpReach("end")
		return
	}
	n := 2 + vpChoice("children", 2)
	kids := make([]*vpMergeChild, n)
	hs := make([]Handler, n)
	for i := range kids {
		kids[i] = &vpMergeChild{accept: vpBool("accept"),
			texts:  []string{vpSym1("text"), vpSym1("text")},
			counts: []uint64{vpUint64("count"), vpUint64("count")}}
		hs[i] = kids[i]
	}
	h := NewMergeHandler(hs...)
	recv := make(chan ClientMsg, 4)
	send := make(chan ServerMsg, 16)
	done := make(chan error, 1)
	ctx, cancel := context.WithCancel(context.Background())
	go func() { done <- h.ServeNostr(ctx, send, recv) }()
	vpMergeSettle()

	nreq := 2
	isEvent := make([]bool, nreq)
	ids := []string{"q0", "q1"}
	sameID := vpChoice("same-id", 2) == 1 // the second request re-uses the id while the first is in flight
	if sameID {
		ids[1] = "q0"
	}
	budget := 1
	if vpTier() > 0 && n == 2 {
		budget = 2 // thorough: two preemptions with two children (with three: past 15 minutes)
	}
	vpPreempt(budget)
	for k := 0; k < nreq; k++ {
		isEvent[k] = vpChoice("kind-of-request", 2) == 0
		if sameID && k == 1 {
			vpAssume(isEvent[1] == isEvent[0])
		}
		if isEvent[k] {
			recv <- &ClientEventMsg{Event: &Event{ID: ids[k], Tags: []Tag{}}}
		} else {
			recv <- &ClientCountMsg{SubscriptionID: ids[k], ReqFilters: []*ReqFilter{{}}}
		}
	}
	vpMergeSettle()
	vpPreempt(0)
	vpMergeSettle()

	allAcc := true
	firstRej := -1
	for i, c := range kids {
		vpAssert(c.got == nreq, "C09.public-every-child-gets-every-request")
		if !c.accept {
			allAcc = false
			if firstRej < 0 {
				firstRej = i
			}
		}
	}
	// each child is sequential and the broadcast keeps the client's order, so request k is
	// the k-th one every child answers; with a re-used id the replies come in request order
	// (request 0 is complete at every child before any child's answer to request 1 is merged)
	replies := make([]int, nreq)
	for len(send) > 0 {
		var id string
		var okm *ServerOKMsg
		var cm *ServerCountMsg
		switch m := (<-send).(type) {
		case *ServerOKMsg:
			id, okm = m.EventID, m
		case *ServerCountMsg:
			id, cm = m.SubscriptionID, m
		default:
			vpAssert(false, "C09.public-unexpected-message")
			continue
		}
		k := vpIndexOf(ids, id)
		if k == 0 && sameID && replies[0] > 0 {
			k = 1
		}
		vpAssert(k >= 0, "C09.public-reply-answers-a-request")
		if k < 0 {
			continue
		}
		replies[k]++
		if okm != nil {
			vpAssert(isEvent[k], "C09.public-ok-answers-a-submitted-event")
			vpAssert(okm.Accepted == allAcc, "C09.public-accepted-iff-all-accepted")
			if !allAcc && !okm.Accepted {
				vpAssert(strings.HasPrefix(okm.Message(), MachineReadablePrefixBlocked+kids[firstRej].texts[k]), "C09.public-text-begins-with-first-rejection")
			}
		} else {
			vpAssert(!isEvent[k], "C09.public-count-answers-a-count-request")
			isMax, attained := true, false
			for _, c := range kids {
				isMax = vpAnd(isMax, c.counts[k] <= cm.Count)
				attained = vpOr(attained, c.counts[k] == cm.Count)
			}
			vpAssert(vpAnd(isMax, attained), "C09.public-count-is-the-maximum")
		}
	}
	for k := range replies {
		vpAssert(replies[k] == 1, "C09.public-exactly-one-reply-per-request")
	}
	// the session ends when its input closes and leaves nothing behind
	close(recv)
	vpMergeSettle()
	vpAssert(len(done) == 1, "C09.public-session-ends-when-its-input-closes")
	cancel()
	vpMergeSettle()
	vpReach("end")
}

// C08 through the public API: a REQ answered by two scripted children holding one or
// two stored events each (free created_at, newest first per child; ids symbolic, an
// id identifies an event). Every schedule within the preemption bound. The merged
// stream: before the single EOSE the forwarded events match, are pairwise distinct
// and non-increasing in created_at; exactly one EOSE, after every child's EOSE (the
// session is quiescent then: no message after it).
func vpH_C08_public() {
	if !vpSymbolic() {
		vpReach("end")
		return
	}
	const n = 2
	kids := make([]*vpMergeChild, n)
	hs := make([]Handler, n)
	var all []*Event
	for i := range kids {
		kids[i] = &vpMergeChild{}
		cnt := 1 + vpChoice("stored", 2)
		for j := 0; j < cnt; j++ {
			ev := &Event{ID: vpSym1("id"), Pubkey: "A", Kind: 1, CreatedAt: vpInt64("at"), Tags: []Tag{}}
			if j > 0 {
				prev := kids[i].stored[j-1]
				vpAssume(prev.CreatedAt >= ev.CreatedAt)
				vpAssume(prev.ID != ev.ID)
			}
			for _, o := range all {
				vpAssume(vpImplies(o.ID == ev.ID, o.CreatedAt == ev.CreatedAt))
			}
			all = append(all, ev)
			kids[i].stored = append(kids[i].stored, ev)
		}
		hs[i] = kids[i]
	}
	h := NewMergeHandler(hs...)
	recv := make(chan ClientMsg, 4)
	send := make(chan ServerMsg, 16)
	done := make(chan error, 1)
	ctx, cancel := context.WithCancel(context.Background())
	go func() { done <- h.ServeNostr(ctx, send, recv) }()
	vpMergeSettle()
	vpPreempt(vpSteps(1, 2))
	recv <- &ClientReqMsg{SubscriptionID: "s", ReqFilters: []*ReqFilter{{}}}
	vpMergeSettle()
	vpPreempt(0)
	vpMergeSettle()

	var fwd []*Event
	eose := 0
	for len(send) > 0 {
		switch m := (<-send).(type) {
		case *ServerEventMsg:
			vpAssert(eose == 0, "C08.public-no-stored-event-after-eose")
			vpAssert(m.SubscriptionID == "s", "C08.public-subscription-id")
			known := false
			for _, o := range all {
				if o == m.Event {
					known = true
				}
			}
			vpAssert(known, "C08.public-forwarded-unchanged")
			for _, p := range fwd {
				vpAssert(p.ID != m.Event.ID, "C08.public-stored-events-distinct")
			}
			if len(fwd) > 0 {
				vpAssert(fwd[len(fwd)-1].CreatedAt >= m.Event.CreatedAt, "C08.public-stored-events-ordered")
			}
			fwd = append(fwd, m.Event)
		case *ServerEOSEMsg:
			vpAssert(m.SubscriptionID == "s", "C08.public-subscription-id")
			eose++
		default:
			vpAssert(false, "C08.public-unexpected-message")
		}
	}
	vpAssert(eose == 1, "C08.public-exactly-one-eose")
	vpAssert(len(fwd) >= 1, "C08.public-something-forwarded")
	close(recv)
	vpMergeSettle()
	vpAssert(len(done) == 1, "C08.public-session-ends-when-its-input-closes")
	cancel()
	vpMergeSettle()
	vpReach("end")
}
