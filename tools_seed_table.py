#!/usr/bin/env python3
"""Parses a seed-matrix log (tools_seed_eval.sh output per seed) into seeded/README.md and meta.json updates."""
import json, re, sys, os
log = sys.argv[1]
cur=None; res={}
for line in open(log):
    line=line.rstrip('\n')
    m=re.match(r'^#### (\S+)',line)
    if m: cur=m.group(1); res[cur]={"checks":[], "lines":[]}; continue
    if cur is None: continue
    m=re.match(r'^== (\S+) exit=(\d+)',line)
    if m: res[cur]["checks"].append([m.group(1), int(m.group(2))]); continue
    if line.startswith(('VIOLATION','  harness=','INCONCLUSIVE')): res[cur]["lines"].append(line[:220])
rows=[]
for name in sorted(res):
    d=f'/verif/seeded/{name}'
    meta=json.load(open(d+'/meta.json'))
    outcome=[]; labels=[]
    for l in res[name]["lines"]:
        m=re.search(r'harness=(\S+) label=(\S+)',l)
        if m: labels.append(f"{m.group(1)}:{m.group(2)}")
    for chk,rc in res[name]["checks"]:
        outcome.append(f"{chk}: "+{0:"pass (NOT caught)",1:"VIOLATION",2:"INCONCLUSIVE"}.get(rc,f"exit {rc}"))
    caught = any(rc==1 for _,rc in res[name]["checks"])
    meta["ran"]="tools_seed_eval.sh: git -C /repo apply patch.diff; ./check <property> --tier quick; git -C /repo checkout -- ."
    meta["check_outcome"]=outcome
    meta["caught"]=caught
    meta["caught_by"]=sorted(set(labels))[:4]
    json.dump(meta,open(d+'/meta.json','w'),indent=1)
    rows.append((name,meta["change"],meta["needs_to_manifest"],"; ".join(outcome),", ".join(sorted(set(labels))[:2])))
notes=json.load(open('/verif/seeded/notes.json')) if os.path.exists('/verif/seeded/notes.json') else {}
with open('/verif/seeded/README.md','w') as f:
    f.write("# Independently seeded breaking changes\n\n")
    f.write("Each directory holds a change to high-moctane/mocrelay written by a fresh sub-agent that saw only the text of one property and its own scratch worktree of /repo (nothing from /verif), its demonstration test, and `meta.json`. Every change was confirmed with `tools_seed_verify.sh` in a fresh worktree (applies, `go build ./...`, the existing suite passes unedited, the demonstration fails with the change and passes without it) and then run against the checks with `tools_seed_eval.sh` (apply to /repo, `./check <property> --tier quick`, undo). None of these changes is committed to /repo.\n\n")
    n=sum(1 for r in rows if 'VIOLATION' in r[3]); f.write(f"Result of the last full run: {n} of {len(rows)} changes are reported as VIOLATION by the check of their property.\n\n")
    f.write("| seed | change | needs | check outcome | first labels |\n|---|---|---|---|---|\n")
    for r in rows:
        f.write("| "+" | ".join(x.replace('|','\\|') for x in r)+" |\n")
    f.write("\n## Notes\n\n")
    for k in sorted(notes): f.write(f"* **{k}** — {notes[k]}\n")
print(f"{n}/{len(rows)} caught")
