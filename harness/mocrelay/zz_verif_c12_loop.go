package mocrelay

import (
	"context"
	"errors"
	"fmt"

	"github.com/coder/websocket"
	"golang.org/x/time/rate"
)

func init() {
	vpHarnesses["vpH_C12_loop"] = vpH_C12_loop
}

// C12 read loop (one seam above the gate harness: only serveReadLoop's signature is
// used, so a change of the unexported serveRead does not remove this harness): the
// socket delivers k <= 3 frames and then fails; each frame has its own free gate
// outcomes. The handler side must receive exactly the passing frames' messages, once
// each, in the order the frames were sent; every other frame yields exactly one
// rejection; nothing else is emitted.
func vpH_C12_loop() {
	if !vpSymbolic() {
		vpReach("end")
		return
	}
	k := 1 + vpChoice("k", 3+vpTier()) // 1..3 frames (thorough: 1..4)
	type frame struct {
		binary, utf8ok, jsonok, parseOK, valid, verifyOK bool
		msg                                              ClientMsg
	}
	frames := make([]frame, k)
	for i := range frames {
		f := &frames[i]
		f.binary = vpChoice("binary", 2) == 1
		f.utf8ok, f.jsonok, f.valid, f.verifyOK = vpBool("utf8"), vpBool("json"), vpBool("valid"), vpBool("verify")
		f.parseOK = vpChoice("parse", 2) == 1
		switch vpChoice("msgtype", 3) {
		case 0:
			f.msg = &ClientEventMsg{Event: &Event{ID: fmt.Sprintf("id%d", i), Tags: []Tag{}}}
		case 1:
			f.msg = &ClientReqMsg{SubscriptionID: fmt.Sprintf("s%d", i), ReqFilters: []*ReqFilter{{}}}
		case 2:
			f.msg = &ClientCloseMsg{SubscriptionID: fmt.Sprintf("s%d", i)}
		}
	}
	readErr := errors.New("peer gone")
	next := 0
	idx := func(p []byte) int { return int(p[0]) }
	vpStub("(*golang.org/x/time/rate.Limiter).Wait", func(l *rate.Limiter, ctx context.Context) error { return nil })
	vpStub("(*github.com/coder/websocket.Conn).Read", func(c *websocket.Conn, ctx context.Context) (websocket.MessageType, []byte, error) {
		if next >= k {
			// the peer goes away only after everything in flight had a chance to finish
			for j := 0; j < 8; j++ {
				vpYield()
			}
			return 0, nil, readErr
		}
		i := next
		next++
		if frames[i].binary {
			return websocket.MessageBinary, []byte{byte(i)}, nil
		}
		return websocket.MessageText, []byte{byte(i)}, nil
	})
	vpStub("unicode/utf8.Valid", func(p []byte) bool { return frames[idx(p)].utf8ok })
	vpStub("encoding/json.Valid", func(p []byte) bool { return frames[idx(p)].jsonok })
	vpStub("github.com/high-moctane/mocrelay.ParseClientMsg", func(b []byte) (ClientMsg, error) {
		if !frames[idx(b)].parseOK {
			return nil, errors.New("parse failed")
		}
		return frames[idx(b)].msg, nil
	})
	vpStub("github.com/high-moctane/mocrelay.ValidClientMsg", func(m ClientMsg) bool {
		for i := range frames {
			if vpSameObject(frames[i].msg, m) {
				return frames[i].valid
			}
		}
		return false
	})
	vpStub("(*github.com/high-moctane/mocrelay.Event).Verify", func(ev *Event) (bool, error) {
		for i := range frames {
			if em, ok := frames[i].msg.(*ClientEventMsg); ok && em.Event == ev {
				return frames[i].verifyOK, nil
			}
		}
		return false, nil
	})

	relay := NewRelay(nil, nil)
	recv := make(chan ClientMsg, 8)
	send := make(chan ServerMsg, 8)
	err := relay.serveReadLoop(context.Background(), nil, recv, send)
	vpAssert(errors.Is(err, readErr), "C12.read-error-ends-the-session")
	for j := 0; j < 8; j++ {
		vpYield()
	}
	var want []ClientMsg
	rejected := 0
	for i := range frames {
		f := &frames[i]
		pass := vpAnd(!f.binary, vpAnd(f.utf8ok, f.jsonok))
		pass = vpAnd(pass, vpAnd(f.parseOK, f.valid))
		if _, isEvent := f.msg.(*ClientEventMsg); isEvent {
			pass = vpAnd(pass, f.verifyOK)
		}
		if pass {
			want = append(want, f.msg)
		} else {
			rejected++
		}
	}
	vpAssert(len(recv) == len(want), "C12.loop-handler-gets-exactly-the-valid-frames")
	for i := 0; i < len(want) && len(recv) > 0; i++ {
		vpAssert(vpUnchanged(<-recv, want[i]), "C12.loop-handler-gets-frames-in-the-order-sent")
	}
	vpAssert(len(send) == rejected, "C12.loop-one-rejection-per-invalid-frame")
	for len(send) > 0 {
		vpAssert(vpIsRejection(<-send), "C12.rejection-is-a-notice-or-rejecting-ok-closed")
	}
	vpReach("end")
}
