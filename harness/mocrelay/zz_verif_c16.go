package mocrelay

import (
	"bytes"
	"context"
	"fmt"
)

func init() {
	vpHarnesses["vpH_C16_cache"] = vpH_C16_cache
	vpHarnesses["vpH_C16_dump"] = vpH_C16_dump
}

// C16: CacheHandler (the real SimpleHandler loop) replies completely and in
// request order. Oracle: a second real EventCache driven directly.
func vpH_C16_cache() {
	capacity := vpCapacity(1)
	h := NewCacheHandler(capacity)
	shadow := NewEventCache(capacity)
	k := vpSteps(2, 3)
	hist := vpNewHist(k, true, false)
	recv := make(chan ClientMsg, k)
	var msgs []ClientMsg
	nev := 0
	for i := 0; i < k; i++ {
		var m ClientMsg
		switch vpChoice("type", 5) {
		case 0:
			m = &ClientEventMsg{Event: hist.next(nev)}
			nev++
		case 1:
			f := vpGenFilterFocused
			if vpTier() > 0 {
				f = vpGenFilterSmall // longer sequences, smaller filter family
			}
			m = &ClientReqMsg{SubscriptionID: vpSym1("sub"), ReqFilters: []*ReqFilter{f(fmt.Sprintf("f%d", i))}}
		case 2:
			m = &ClientCountMsg{SubscriptionID: vpSym1("sub"), ReqFilters: []*ReqFilter{{}}}
		case 3:
			m = &ClientCloseMsg{SubscriptionID: vpSym1("sub")}
		case 4:
			m = &ClientAuthMsg{Event: &Event{ID: "auth", Tags: []Tag{}}}
		}
		msgs = append(msgs, m)
		recv <- m
	}
	close(recv)
	send := make(chan ServerMsg, 64)
	// serving returns once the input is closed (which error value reports it is not part of the statement)
	_ = h.ServeNostr(context.Background(), send, recv)
	close(send)
	got := vpDrainServer(send)
	pos := 0
	next := func() ServerMsg {
		if pos < len(got) {
			pos++
			return got[pos-1]
		}
		return nil
	}
	for _, m := range msgs {
		switch m := m.(type) {
		case *ClientEventMsg:
			listed := vpHasEvent(shadow.Find([]*ReqFilter{{}}), m.Event)
			acc := shadow.Add(m.Event)
			ok, isOK := next().(*ServerOKMsg)
			vpAssert(isOK, "C16.event-answered-by-ok")
			if isOK {
				vpAssert(ok.EventID == m.Event.ID, "C16.ok-carries-the-id")
				vpAssert(ok.Accepted == acc, "C16.ok-accepting-iff-newly-stored")
				if listed {
					vpAssert(!ok.Accepted && ok.MsgPrefix == MachineReadablePrefixDuplicate, "C16.duplicate-prefix-when-already-stored")
				}
			}
		case *ClientReqMsg:
			for _, ev := range shadow.Find(m.ReqFilters) {
				em, isEv := next().(*ServerEventMsg)
				vpAssert(isEv, "C16.req-stored-matches-first")
				if isEv {
					vpAssert(em.Event == ev && em.SubscriptionID == m.SubscriptionID, "C16.req-match-labelled-and-in-order")
				}
			}
			eose, isE := next().(*ServerEOSEMsg)
			vpAssert(isE && eose.SubscriptionID == m.SubscriptionID, "C16.req-ends-with-one-eose")
		case *ClientCountMsg:
			cm, isC := next().(*ServerCountMsg)
			vpAssert(isC && cm.SubscriptionID == m.SubscriptionID, "C16.count-answered-once")
		}
	}
	vpAssert(pos == len(got), "C16.nothing-else-is-sent")
	vpReach("end")
}

// Dump/restore: restoring a dump into an empty cache of the same capacity
// answers every query identically. The JSON codec of the event list is an
// identity stub in the engine (natively the real encoding/json runs).
var vpDumped []*Event

func vpH_C16_dump() {
	vpStub("encoding/json.Marshal", func(v any) ([]byte, error) {
		vpDumped = append([]*Event(nil), v.([]*Event)...)
		return []byte("dump"), nil
	})
	vpStub("encoding/json.Unmarshal", func(b []byte, v any) error {
		out := make([]*Event, len(vpDumped))
		for i, e := range vpDumped {
			c := *e
			out[i] = &c
		}
		*(v.(*[]*Event)) = out
		return nil
	})
	capacity := vpCapacity(1)
	a := NewCacheHandler(capacity)
	// 2-step histories in both tiers: restoring re-inserts every event, so 3-step histories
	// exceed 3 million paths even for a single query shape (measured: 2.9 million in 15 min)
	n := 2
	hist := vpNewHist(n, true, false)
	for _, d := range hist.d {
		vpAssume(d[0] < 0x80) // events carry valid UTF-8 (a dump is JSON text)
	}
	for i := 0; i < n; i++ {
		a.h.c.Add(hist.next(i))
	}
	var buf bytes.Buffer
	vpAssert(a.Dump(&buf) == nil, "C16.dump-ok")
	b := NewCacheHandler(capacity)
	vpAssert(b.Restore(&buf) == nil, "C16.restore-ok")
	fs := []*ReqFilter{vpGenFilterFocused("f")}
	if fs[0].Limit != nil {
		vpAssume(*fs[0].Limit >= 0)
	}
	x, y := a.h.c.Find(fs), b.h.c.Find(fs)
	vpAssert(len(x) == len(y), "C16.restored-same-answer-size")
	if len(x) == len(y) {
		for i := range x {
			vpAssert(x[i].ID == y[i].ID && x[i].CreatedAt == y[i].CreatedAt, "C16.restored-same-answer")
		}
	}
	vpAssert(a.h.c.Len() == b.h.c.Len(), "C16.restored-same-size")
	vpReach("end")
}
