package mocrelay

import (
	"bytes"
	"encoding/json"
	"errors"
	"fmt"
	"io"
	"strconv"
)

func init() {
	vpHarnesses["vpH_C10_roundtrip"] = vpH_C10_roundtrip
	vpHarnesses["vpH_C10_mutations"] = vpH_C10_mutations
}

// ---------------------------------------------------------------------------
// encoding/json as environment (DESIGN 3.6): the reflection-driven library is
// not executed. A byte string handed to the library is a TOKEN bound to a JSON
// tree; the stubs below return what the library's documented typing returns
// for that tree and that target type. The repository's own code on top of it
// (arity/label/type checks, extraction, prefix parsing, MarshalJSON skeletons)
// is executed for real. Natively (replay) the real library runs on real text.

const (
	vpJNull = iota
	vpJBool
	vpJNum
	vpJStr
	vpJArr
	vpJObj
)

type vpJ struct {
	kind int
	b    bool
	num  string // literal; "" when the number is the integer term ival
	ival int64
	uns  bool // ival is unsigned
	s    string
	arr  []*vpJ
	keys []string
	vals []*vpJ
}

var (
	vpJTok   map[string]*vpJ
	vpJNums  map[json.Number]*vpJ
	vpJDecs  map[*json.Decoder]*vpJDec
	vpJCount int
)

type vpJDec struct {
	tree     *vpJ
	ok       bool
	consumed bool
	disallow bool
	trailing bool
}

func vpJReset() {
	vpJTok = map[string]*vpJ{}
	vpJNums = map[json.Number]*vpJ{}
	vpJDecs = map[*json.Decoder]*vpJDec{}
	vpJCount = 0
	vpJTrailing = false
}

// vpAscii: a symbolic string of n ASCII bytes (well-formed protocol strings are valid UTF-8).
func vpAscii(name string, n int) string {
	s := vpString(name, n)
	for i := 0; i < len(s); i++ {
		vpAssume(s[i] < 0x80)
	}
	return s
}

// vpJLookup: the tree a byte string stands for. Bytes that the environment did not hand
// out (JSON text assembled or edited by hand in the code under test) are outside the
// environment model: the path ends INCONCLUSIVE instead of being judged.
func vpJLookup(b []byte) (*vpJ, bool) {
	t, ok := vpJTok[string(b)]
	if !ok {
		vpUnsupported("JSON text that was not produced by the JSON environment reaches the library (assembled by hand?): outside the environment model")
	}
	return t, ok
}

func vpJBind(t *vpJ) []byte {
	vpJCount++
	tok := fmt.Sprintf("<T%d>", vpJCount)
	vpJTok[tok] = t
	return []byte(tok)
}

func jNull() *vpJ         { return &vpJ{kind: vpJNull} }
func jBool(b bool) *vpJ   { return &vpJ{kind: vpJBool, b: b} }
func jStr(s string) *vpJ  { return &vpJ{kind: vpJStr, s: s} }
func jLit(l string) *vpJ  { return &vpJ{kind: vpJNum, num: l} }
func jInt(v int64) *vpJ   { return &vpJ{kind: vpJNum, ival: v} }
func jUint(v uint64) *vpJ { return &vpJ{kind: vpJNum, ival: int64(v), uns: true} }
func jArr(e ...*vpJ) *vpJ { return &vpJ{kind: vpJArr, arr: e} }
func jObj() *vpJ          { return &vpJ{kind: vpJObj} }
func (o *vpJ) set(k string, v *vpJ) *vpJ {
	for i := range o.keys {
		if o.keys[i] == k {
			o.vals[i] = v // duplicate key: the last one wins, as in encoding/json
			return o
		}
	}
	o.keys = append(o.keys, k)
	o.vals = append(o.vals, v)
	return o
}

var vpErrJSON = errors.New("json: cannot unmarshal (environment)")

// vpJGeneric: the tree as encoding/json decodes it into `any` with UseNumber.
func vpJGeneric(t *vpJ) any {
	switch t.kind {
	case vpJNull:
		return nil
	case vpJBool:
		return t.b
	case vpJNum:
		n := json.Number(t.num)
		if t.num == "" {
			vpJCount++
			n = json.Number(fmt.Sprintf("<N%d>", vpJCount))
		}
		vpJNums[n] = t
		return n
	case vpJStr:
		return t.s
	case vpJArr:
		out := make([]any, len(t.arr))
		for i, e := range t.arr {
			out[i] = vpJGeneric(e)
		}
		return out
	default:
		out := make(map[string]any, len(t.keys))
		for i, k := range t.keys {
			out[k] = vpJGeneric(t.vals[i])
		}
		return out
	}
}

func vpStubUnmarshal(b []byte, v any) error {
	t, ok := vpJLookup(b)
	if !ok {
		return vpErrJSON
	}
	switch p := v.(type) {
	case *[]json.RawMessage:
		switch t.kind {
		case vpJNull:
			*p = nil
			return nil
		case vpJArr:
			out := make([]json.RawMessage, len(t.arr))
			for i, e := range t.arr {
				out[i] = json.RawMessage(vpJBind(e))
			}
			*p = out
			return nil
		}
		return vpErrJSON
	case *string:
		switch t.kind {
		case vpJNull:
			return nil
		case vpJStr:
			*p = t.s
			return nil
		}
		return vpErrJSON
	case *bool:
		switch t.kind {
		case vpJNull:
			return nil
		case vpJBool:
			*p = t.b
			return nil
		}
		return vpErrJSON
	case *[]string:
		switch t.kind {
		case vpJNull:
			*p = nil
			return nil
		case vpJArr:
			out := make([]string, len(t.arr))
			for i, e := range t.arr {
				switch e.kind {
				case vpJStr:
					out[i] = e.s
				case vpJNull:
				default:
					return vpErrJSON
				}
			}
			*p = out
			return nil
		}
		return vpErrJSON
	}
	return errors.New("environment: unexpected unmarshal target")
}

func vpStubNewDecoder(r io.Reader) *json.Decoder {
	d := new(json.Decoder)
	st := &vpJDec{trailing: vpJTrailing}
	if buf, ok := r.(*bytes.Buffer); ok {
		st.tree, st.ok = vpJLookup(buf.Bytes())
	} else if rd, ok := r.(*bytes.Reader); ok {
		b := make([]byte, rd.Len())
		rd.Read(b)
		st.tree, st.ok = vpJLookup(b)
	}
	vpJDecs[d] = st
	return d
}

func vpStubDecode(d *json.Decoder, v any) error {
	st := vpJDecs[d]
	if st == nil || !st.ok {
		return vpErrJSON
	}
	if st.consumed {
		return io.EOF
	}
	st.consumed = true
	t := st.tree
	switch p := v.(type) {
	case *map[string]any:
		switch t.kind {
		case vpJNull:
			*p = nil
			return nil
		case vpJObj:
			// encoding/json reuses a non-nil map and keeps its existing entries
			if *p == nil {
				*p = map[string]any{}
			}
			for k, v := range vpJGeneric(t).(map[string]any) {
				(*p)[k] = v
			}
			return nil
		}
		return vpErrJSON
	case *any:
		*p = vpJGeneric(t)
		return nil
	case *serverCountMsgPayload:
		switch t.kind {
		case vpJNull:
			return nil
		case vpJObj:
			for i, k := range t.keys {
				val := t.vals[i]
				switch k {
				case "count":
					if val.kind == vpJNull {
						continue
					}
					if val.kind != vpJNum {
						return vpErrJSON
					}
					if val.num == "" {
						if !val.uns && val.ival < 0 {
							return vpErrJSON
						}
						p.Count = uint64(val.ival)
					} else {
						u, err := strconv.ParseUint(val.num, 10, 64)
						if err != nil {
							return vpErrJSON
						}
						p.Count = u
					}
				case "approximate":
					switch val.kind {
					case vpJNull:
						p.Approximate = nil
					case vpJBool:
						b := val.b
						p.Approximate = &b
					default:
						return vpErrJSON
					}
				default:
					if st.disallow {
						return vpErrJSON
					}
				}
			}
			return nil
		}
		return vpErrJSON
	}
	return errors.New("environment: unexpected decode target")
}

func vpStubToken(d *json.Decoder) (json.Token, error) {
	st := vpJDecs[d]
	if st != nil && st.trailing {
		return json.Delim('['), nil
	}
	return nil, io.EOF
}

func vpStubNumberInt64(n json.Number) (int64, error) {
	if t, ok := vpJNums[n]; ok && t.num == "" {
		if t.uns && t.ival < 0 {
			return 0, errors.New("value out of range")
		}
		return t.ival, nil
	}
	return strconv.ParseInt(string(n), 10, 64)
}

// vpToTree: the normal form json.Marshal produces for the values the
// repository hands to it (struct tags honoured, MarshalJSON methods executed).
func vpToTree(v any) (*vpJ, error) {
	switch x := v.(type) {
	case nil:
		return jNull(), nil
	case string:
		return jStr(x), nil
	case bool:
		return jBool(x), nil
	case int:
		return jInt(int64(x)), nil
	case int64:
		return jInt(x), nil
	case uint64:
		return jUint(x), nil
	case *bool:
		if x == nil {
			return jNull(), nil
		}
		return jBool(*x), nil
	case []string:
		if x == nil {
			return jNull(), nil
		}
		a := jArr()
		for _, s := range x {
			a.arr = append(a.arr, jStr(s))
		}
		return a, nil
	case Tag:
		return vpToTree([]string(x))
	case []Tag:
		if x == nil {
			return jNull(), nil
		}
		a := jArr()
		for _, t := range x {
			e, _ := vpToTree(t)
			a.arr = append(a.arr, e)
		}
		return a, nil
	case []int64:
		if x == nil {
			return jNull(), nil
		}
		a := jArr()
		for _, n := range x {
			a.arr = append(a.arr, jInt(n))
		}
		return a, nil
	case []any:
		a := jArr()
		for _, e := range x {
			t, err := vpToTree(e)
			if err != nil {
				return nil, err
			}
			a.arr = append(a.arr, t)
		}
		return a, nil
	case *[]any:
		return vpToTree(*x)
	case *[2]any:
		return vpToTree((*x)[:])
	case *[3]any:
		return vpToTree((*x)[:])
	case *[4]any:
		return vpToTree((*x)[:])
	case *[2]string:
		return vpToTree((*x)[:])
	case *[3]string:
		return vpToTree((*x)[:])
	case map[string]any:
		o := jObj()
		for k, e := range x {
			t, err := vpToTree(e)
			if err != nil {
				return nil, err
			}
			o.set(k, t)
		}
		return o, nil
	case *Event:
		if x == nil {
			return jNull(), nil
		}
		tags, _ := vpToTree(x.Tags)
		o := jObj()
		o.set("id", jStr(x.ID)).set("pubkey", jStr(x.Pubkey)).set("created_at", jInt(x.CreatedAt)).set("kind", jInt(x.Kind))
		o.set("tags", tags).set("content", jStr(x.Content)).set("sig", jStr(x.Sig))
		return o, nil
	case *ReqFilter:
		if x == nil {
			return jNull(), nil
		}
		b, err := x.MarshalJSON()
		if err != nil {
			return nil, err
		}
		t, _ := vpJLookup(b)
		return t, nil
	case serverCountMsgPayload:
		o := jObj().set("count", jUint(x.Count))
		if x.Approximate != nil {
			o.set("approximate", jBool(*x.Approximate))
		}
		return o, nil
	}
	return nil, fmt.Errorf("environment: unexpected marshal operand %T", v)
}

func vpStubMarshal(v any) ([]byte, error) {
	t, err := vpToTree(v)
	if err != nil {
		return nil, err
	}
	return vpJBind(t), nil
}

func vpInstallJSONEnv() {
	vpJReset()
	vpStub("encoding/json.Unmarshal", vpStubUnmarshal)
	vpStub("encoding/json.Marshal", vpStubMarshal)
	vpStub("encoding/json.NewDecoder", vpStubNewDecoder)
	vpStub("(*encoding/json.Decoder).Decode", vpStubDecode)
	vpStub("(*encoding/json.Decoder).Token", vpStubToken)
	vpStub("(*encoding/json.Decoder).UseNumber", func(d *json.Decoder) {})
	vpStub("(*encoding/json.Decoder).DisallowUnknownFields", func(d *json.Decoder) {
		if st := vpJDecs[d]; st != nil {
			st.disallow = true
		}
	})
	vpStub("(encoding/json.Number).Int64", vpStubNumberInt64)
}

// ---------------------------------------------------------------------------
// Values of every protocol type, symbolic leaves

func vpAscii1(name string) string { return vpAscii(name, 1) }

func vpC10Event(name string) *Event {
	e := &Event{ID: vpAscii1(name + ".id"), Pubkey: vpAscii1(name + ".pk"), CreatedAt: vpInt64(name + ".at"), Kind: vpInt64(name + ".kind"),
		Content: vpAscii(name+".content", 2), Sig: vpAscii1(name + ".sig"), Tags: []Tag{}}
	switch vpChoice(name+".tags", 3) {
	case 1:
		e.Tags = []Tag{{vpAscii1(name + ".t0"), vpAscii1(name + ".t1")}}
	case 2:
		e.Tags = []Tag{{"e"}, {"p", vpAscii1(name + ".t1"), "relay"}}
	}
	return e
}

func vpC10Filter(name string) *ReqFilter {
	f := &ReqFilter{}
	if vpChoice(name+".hasids", 2) == 1 {
		f.IDs = []string{vpAscii1(name + ".id")}
	}
	if vpChoice(name+".hasauthors", 2) == 1 {
		f.Authors = []string{}
	}
	if vpChoice(name+".haskinds", 2) == 1 {
		f.Kinds = []int64{vpInt64(name + ".kind"), 1}
	}
	if vpChoice(name+".hastags", 2) == 1 {
		f.Tags = map[string][]string{"e": {vpAscii1(name + ".e")}, "Z": {}}
	}
	f.Since = vpGenOptInt(name + ".since")
	f.Until = vpGenOptInt(name + ".until")
	f.Limit = vpGenOptInt(name + ".limit")
	return f
}

func vpEventsEqual(a, b *Event) bool {
	if a == nil || b == nil {
		return a == b
	}
	r := vpAnd(vpAnd(a.ID == b.ID, a.Pubkey == b.Pubkey), vpAnd(a.CreatedAt == b.CreatedAt, a.Kind == b.Kind))
	r = vpAnd(r, vpAnd(a.Content == b.Content, a.Sig == b.Sig))
	if len(a.Tags) != len(b.Tags) {
		return false
	}
	for i := range a.Tags {
		if len(a.Tags[i]) != len(b.Tags[i]) {
			return false
		}
		for j := range a.Tags[i] {
			r = vpAnd(r, a.Tags[i][j] == b.Tags[i][j])
		}
	}
	return r
}

func vpStrsEqual(a, b []string) bool {
	if (a == nil) != (b == nil) || len(a) != len(b) {
		return false
	}
	r := true
	for i := range a {
		r = vpAnd(r, a[i] == b[i])
	}
	return r
}

func vpOptEqual(a, b *int64) bool {
	if a == nil || b == nil {
		return a == b
	}
	return *a == *b
}

func vpFiltersEqual(a, b *ReqFilter) bool {
	if a == nil || b == nil {
		return a == b
	}
	r := vpAnd(vpStrsEqual(a.IDs, b.IDs), vpStrsEqual(a.Authors, b.Authors))
	if (a.Kinds == nil) != (b.Kinds == nil) || len(a.Kinds) != len(b.Kinds) || len(a.Tags) != len(b.Tags) || (a.Tags == nil) != (b.Tags == nil) {
		return false
	}
	for i := range a.Kinds {
		r = vpAnd(r, a.Kinds[i] == b.Kinds[i])
	}
	for k, v := range a.Tags {
		w, ok := b.Tags[k]
		if !ok {
			return false
		}
		r = vpAnd(r, vpStrsEqual(v, w))
	}
	return vpAnd(r, vpAnd(vpOptEqual(a.Since, b.Since), vpAnd(vpOptEqual(a.Until, b.Until), vpOptEqual(a.Limit, b.Limit))))
}

func vpFilterListsEqual(a, b []*ReqFilter) bool {
	if len(a) != len(b) {
		return false
	}
	r := true
	for i := range a {
		r = vpAnd(r, vpFiltersEqual(a[i], b[i]))
	}
	return r
}

var vpPrefixes = []string{"", MachineReadablePrefixDuplicate, MachineReadablePrefixBlocked, MachineReadablePrefixInvalid}

// vpC10Cases: every message type with an encoder, a fresh decoder target and an
// equality on protocol values. which selects the type.
const vpC10Types = 14

func vpC10RoundTrip(which int) (enc func() ([]byte, error), dec func(b []byte) (any, error), same func(decoded any) bool, label string) {
	switch which {
	case 0:
		m := &ClientEventMsg{Event: vpC10Event("e")}
		return m.MarshalJSON, func(b []byte) (any, error) { var d ClientEventMsg; err := d.UnmarshalJSON(b); return &d, err },
			func(x any) bool { return vpEventsEqual(m.Event, x.(*ClientEventMsg).Event) }, MsgLabelEvent
	case 1:
		m := &ClientReqMsg{SubscriptionID: vpAscii1("sub"), ReqFilters: []*ReqFilter{vpC10Filter("f")}}
		if vpChoice("two", 2) == 1 {
			m.ReqFilters = append(m.ReqFilters, &ReqFilter{})
		}
		return m.MarshalJSON, func(b []byte) (any, error) { var d ClientReqMsg; err := d.UnmarshalJSON(b); return &d, err },
			func(x any) bool {
				d := x.(*ClientReqMsg)
				return vpAnd(d.SubscriptionID == m.SubscriptionID, vpFilterListsEqual(m.ReqFilters, d.ReqFilters))
			}, MsgLabelReq
	case 2:
		m := &ClientCloseMsg{SubscriptionID: vpAscii1("sub")}
		return m.MarshalJSON, func(b []byte) (any, error) { var d ClientCloseMsg; err := d.UnmarshalJSON(b); return &d, err },
			func(x any) bool { return x.(*ClientCloseMsg).SubscriptionID == m.SubscriptionID }, MsgLabelClose
	case 3:
		m := &ClientAuthMsg{Event: vpC10Event("e")}
		return m.MarshalJSON, func(b []byte) (any, error) { var d ClientAuthMsg; err := d.UnmarshalJSON(b); return &d, err },
			func(x any) bool { return vpEventsEqual(m.Event, x.(*ClientAuthMsg).Event) }, MsgLabelAuth
	case 4:
		m := &ClientCountMsg{SubscriptionID: vpAscii1("sub"), ReqFilters: []*ReqFilter{vpC10Filter("f")}}
		return m.MarshalJSON, func(b []byte) (any, error) { var d ClientCountMsg; err := d.UnmarshalJSON(b); return &d, err },
			func(x any) bool {
				d := x.(*ClientCountMsg)
				return vpAnd(d.SubscriptionID == m.SubscriptionID, vpFilterListsEqual(m.ReqFilters, d.ReqFilters))
			}, MsgLabelCount
	case 5:
		m := NewServerEOSEMsg(vpAscii1("sub"))
		return m.MarshalJSON, func(b []byte) (any, error) { var d ServerEOSEMsg; err := d.UnmarshalJSON(b); return &d, err },
			func(x any) bool { return x.(*ServerEOSEMsg).SubscriptionID == m.SubscriptionID }, MsgLabelEOSE
	case 6:
		m := NewServerEventMsg(vpAscii1("sub"), vpC10Event("e"))
		return m.MarshalJSON, func(b []byte) (any, error) { var d ServerEventMsg; err := d.UnmarshalJSON(b); return &d, err },
			func(x any) bool {
				d := x.(*ServerEventMsg)
				return vpAnd(d.SubscriptionID == m.SubscriptionID, vpEventsEqual(m.Event, d.Event))
			}, MsgLabelEvent
	case 7:
		m := NewServerNoticeMsg(vpAscii("msg", 2))
		return m.MarshalJSON, func(b []byte) (any, error) { var d ServerNoticeMsg; err := d.UnmarshalJSON(b); return &d, err },
			func(x any) bool { return x.(*ServerNoticeMsg).Message == m.Message }, MsgLabelNotice
	case 8:
		m := NewServerOKMsg(vpAscii1("id"), vpBool("accepted"), vpPrefixes[vpChoice("prefix", len(vpPrefixes))], vpAscii("text", 2))
		return m.MarshalJSON, func(b []byte) (any, error) { var d ServerOKMsg; err := d.UnmarshalJSON(b); return &d, err },
			func(x any) bool {
				d := x.(*ServerOKMsg)
				return vpAnd(vpAnd(d.EventID == m.EventID, d.Accepted == m.Accepted), d.Message() == m.Message())
			}, MsgLabelOK
	case 9:
		m := &ServerAuthMsg{Challenge: vpAscii("challenge", 2)}
		return m.MarshalJSON, func(b []byte) (any, error) { var d ServerAuthMsg; err := d.UnmarshalJSON(b); return &d, err },
			func(x any) bool { return x.(*ServerAuthMsg).Challenge == m.Challenge }, MsgLabelAuth
	case 10:
		var approx *bool
		if vpChoice("approx", 2) == 1 {
			b := vpBool("approxval")
			approx = &b
		}
		m := NewServerCountMsg(vpAscii1("sub"), vpUint64("count"), approx)
		return m.MarshalJSON, func(b []byte) (any, error) { var d ServerCountMsg; err := d.UnmarshalJSON(b); return &d, err },
			func(x any) bool {
				d := x.(*ServerCountMsg)
				r := vpAnd(d.SubscriptionID == m.SubscriptionID, d.Count == m.Count)
				if (d.Approximate == nil) != (m.Approximate == nil) {
					return false
				}
				if d.Approximate != nil {
					r = vpAnd(r, *d.Approximate == *m.Approximate)
				}
				return r
			}, MsgLabelCount
	case 11:
		m := NewServerClosedMsg(vpAscii1("sub"), vpPrefixes[vpChoice("prefix", len(vpPrefixes))], vpAscii("text", 2))
		return m.MarshalJSON, func(b []byte) (any, error) { var d ServerClosedMsg; err := d.UnmarshalJSON(b); return &d, err },
			func(x any) bool {
				d := x.(*ServerClosedMsg)
				return vpAnd(d.SubscriptionID == m.SubscriptionID, d.Message() == m.Message())
			}, MsgLabelClosed
	case 12:
		ev := vpC10Event("e")
		return func() ([]byte, error) { return vpStubOrRealMarshal(ev) }, func(b []byte) (any, error) { var d Event; err := d.UnmarshalJSON(b); return &d, err },
			func(x any) bool { return vpEventsEqual(ev, x.(*Event)) }, ""
	default:
		f := vpC10Filter("f")
		return f.MarshalJSON, func(b []byte) (any, error) { var d ReqFilter; err := d.UnmarshalJSON(b); return &d, err },
			func(x any) bool { return vpFiltersEqual(f, x.(*ReqFilter)) }, ""
	}
}

func vpStubOrRealMarshal(v any) ([]byte, error) { return json.Marshal(v) }

// C10 O2: for every well-formed value of every protocol type, encoding and
// decoding again yields an equal value (tree-level in the engine, real JSON
// text natively).
func vpH_C10_roundtrip() {
	vpInstallJSONEnv()
	which := vpChoice("type", vpC10Types)
	enc, dec, same, _ := vpC10RoundTrip(which)
	b, err := enc()
	vpAssert(err == nil, "C10.encodes")
	back, err := dec(b)
	vpAssert(err == nil, "C10.decodes-what-was-encoded")
	if err == nil {
		vpAssert(same(back), "C10.round-trip-equal")
	}
	vpReach("end")
}

// ---------------------------------------------------------------------------
// O1: decoding never panics and either fails or yields a completely filled
// value: the encoding of a well-formed value is corrupted at ONE node (any
// node; replaced by a value of another JSON kind, removed, duplicated, member
// renamed) and handed to the decoder of the type and to ParseClientMsg.

func vpJNodes(t *vpJ, out *[]*vpJ) {
	*out = append(*out, t)
	for _, e := range t.arr {
		vpJNodes(e, out)
	}
	for _, e := range t.vals {
		vpJNodes(e, out)
	}
}

func vpJReplacement(k int) *vpJ {
	switch k {
	case 0:
		return jNull()
	case 1:
		return jBool(true)
	case 2:
		return jLit("1")
	case 3:
		return jLit("1.5")
	case 4:
		return jLit("99999999999999999999")
	case 5:
		return jStr("x")
	case 6:
		return jArr()
	case 7:
		return jArr(jStr("x"), jLit("2"))
	case 8:
		return jObj()
	default:
		return jObj().set("junk", jLit("1"))
	}
}

func vpH_C10_mutations() {
	if !vpSymbolic() {
		vpReach("end")
		return
	}
	vpInstallJSONEnv()
	which := vpChoice("type", vpC10Types)
	enc, dec, _, label := vpC10RoundTrip(which)
	b, err := enc()
	vpAssert(err == nil, "C10.encodes")
	root, _ := vpJLookup(b)
	var nodes []*vpJ
	vpJNodes(root, &nodes)
	n := nodes[vpChoice("node", len(nodes))]
	switch vpChoice("mutation", 5) {
	case 0: // replace by a value of any JSON kind
		*n = *vpJReplacement(vpChoice("replacement", 10))
	case 1: // remove the last element / member
		vpAssume((n.kind == vpJArr && len(n.arr) > 0) || (n.kind == vpJObj && len(n.keys) > 0))
		if n.kind == vpJArr {
			n.arr = n.arr[:len(n.arr)-1]
		} else {
			n.keys, n.vals = n.keys[:len(n.keys)-1], n.vals[:len(n.vals)-1]
		}
	case 2: // add an element / an unknown member
		vpAssume(n.kind == vpJArr || n.kind == vpJObj)
		if n.kind == vpJArr {
			n.arr = append(n.arr, vpJReplacement(vpChoice("extra", 10)))
		} else {
			n.set("extra", jStr("x"))
		}
	case 3: // rename a member
		vpAssume(n.kind == vpJObj && len(n.keys) > 0)
		i := vpChoice("member", len(n.keys))
		n.keys[i] = []string{"#ee", "#", "ID", "kinds ", ""}[vpChoice("newname", 5)]
	case 4: // trailing data after the value (decoders that read a stream)
		vpJTrailing = true
	}
	v, err := dec(b)
	if err == nil {
		// decode-encode-decode yields the same value as decode
		again, err2 := vpReencode(which, v)
		vpAssert(err2 == nil, "C10.accepted-value-re-encodes")
		if err2 == nil {
			v2, err3 := dec(again)
			vpAssert(err3 == nil, "C10.re-encoded-value-decodes")
			if err3 == nil {
				vpAssert(vpSameDecoded(which, v, v2), "C10.decode-encode-decode-stable")
			}
		}
	}
	if which < 5 {
		msg, perr := ParseClientMsgTree(b, label)
		if perr == nil {
			vpAssert(msg != nil && msg.ClientMsgLabel() == label, "C10.parsed-type-matches-label")
		}
	}
	// decoders keep no state: whatever happened above, a well-formed value still round-trips
	vpJTrailing = false
	fresh := &ReqFilter{Kinds: []int64{vpInt64("fresh.kind")}, Limit: vpGenOptInt("fresh.limit")}
	fb, err := fresh.MarshalJSON()
	vpAssert(err == nil, "C10.encodes")
	var back ReqFilter
	vpAssert(back.UnmarshalJSON(fb) == nil, "C10.decodes-what-was-encoded")
	vpAssert(vpFiltersEqual(fresh, &back), "C10.decoder-keeps-no-state")
	vpReach("end")
}

var vpJTrailing bool

// ParseClientMsgTree: ParseClientMsg needs the label in the text; the token
// stands for the whole text, so the label prefix is prepended for the regexp.
func ParseClientMsgTree(tok []byte, label string) (ClientMsg, error) {
	text := append([]byte(`["`+label+`"`), tok...)
	vpJTok[string(text)] = vpJTok[string(tok)]
	return ParseClientMsg(text)
}

func vpReencode(which int, v any) ([]byte, error) {
	switch x := v.(type) {
	case *ClientEventMsg:
		return x.MarshalJSON()
	case *ClientReqMsg:
		return x.MarshalJSON()
	case *ClientCloseMsg:
		return x.MarshalJSON()
	case *ClientAuthMsg:
		return x.MarshalJSON()
	case *ClientCountMsg:
		return x.MarshalJSON()
	case *ServerEOSEMsg:
		return x.MarshalJSON()
	case *ServerEventMsg:
		return x.MarshalJSON()
	case *ServerNoticeMsg:
		return x.MarshalJSON()
	case *ServerOKMsg:
		return x.MarshalJSON()
	case *ServerAuthMsg:
		return x.MarshalJSON()
	case *ServerCountMsg:
		return x.MarshalJSON()
	case *ServerClosedMsg:
		return x.MarshalJSON()
	case *Event:
		return json.Marshal(x)
	case *ReqFilter:
		return x.MarshalJSON()
	}
	return nil, errors.New("unexpected decoded type")
}

func vpSameDecoded(which int, a, b any) bool {
	switch x := a.(type) {
	case *ClientEventMsg:
		return vpEventsEqual(x.Event, b.(*ClientEventMsg).Event)
	case *ClientReqMsg:
		y := b.(*ClientReqMsg)
		return vpAnd(x.SubscriptionID == y.SubscriptionID, vpFilterListsEqual(x.ReqFilters, y.ReqFilters))
	case *ClientCloseMsg:
		return x.SubscriptionID == b.(*ClientCloseMsg).SubscriptionID
	case *ClientAuthMsg:
		return vpEventsEqual(x.Event, b.(*ClientAuthMsg).Event)
	case *ClientCountMsg:
		y := b.(*ClientCountMsg)
		return vpAnd(x.SubscriptionID == y.SubscriptionID, vpFilterListsEqual(x.ReqFilters, y.ReqFilters))
	case *ServerEOSEMsg:
		return x.SubscriptionID == b.(*ServerEOSEMsg).SubscriptionID
	case *ServerEventMsg:
		y := b.(*ServerEventMsg)
		return vpAnd(x.SubscriptionID == y.SubscriptionID, vpEventsEqual(x.Event, y.Event))
	case *ServerNoticeMsg:
		return x.Message == b.(*ServerNoticeMsg).Message
	case *ServerOKMsg:
		y := b.(*ServerOKMsg)
		return vpAnd(vpAnd(x.EventID == y.EventID, x.Accepted == y.Accepted), x.Message() == y.Message())
	case *ServerAuthMsg:
		return x.Challenge == b.(*ServerAuthMsg).Challenge
	case *ServerCountMsg:
		y := b.(*ServerCountMsg)
		if (x.Approximate == nil) != (y.Approximate == nil) {
			return false
		}
		return vpAnd(x.SubscriptionID == y.SubscriptionID, x.Count == y.Count)
	case *ServerClosedMsg:
		y := b.(*ServerClosedMsg)
		return vpAnd(x.SubscriptionID == y.SubscriptionID, x.Message() == y.Message())
	case *Event:
		return vpEventsEqual(x, b.(*Event))
	case *ReqFilter:
		return vpFiltersEqual(x, b.(*ReqFilter))
	}
	return false
}
