package prometheus

import (
	"github.com/prometheus/client_golang/prometheus"
)

func init() {
	vpHarnesses["vpH_C19_history"] = vpH_C19_history
}

func vpNewBase() *simplePrometheusMiddlewareBase {
	if !vpSymbolic() {
		return newSimplePrometheusMiddlewareBase(prometheus.NewRegistry())
	}
	vpFakeVecs = map[*prometheus.CounterVec]map[string]*vpFakeCounter{}
	vpStub("(*github.com/prometheus/client_golang/prometheus.CounterVec).WithLabelValues", vpFakeWithLabelValues)
	return &simplePrometheusMiddlewareBase{
		connectionCounter:      newConnectionCounter(&vpFakeGauge{}),
		recvMsgCounter:         newRecvMsgCounter(new(prometheus.CounterVec)),
		recvEventCounter:       newRecvEventCounter(new(prometheus.CounterVec)),
		sendMsgCounter:         newSendMsgCounter(new(prometheus.CounterVec)),
		reqCounter:             newReqCounterCounter(&vpFakeGauge{}),
		reqResponseTimeCounter: newReqResponseTimeCounter(&vpFakeGauge{}),
	}
}

// C19 with the base assembled field by field (gives the lockset monitor access to
// the subscription registry's mutex); see zz_verif_c19_public.go for the runner.
func vpH_C19_history() {
	base := vpNewBase()
	connG, reqG := base.connectionCounter.c, base.reqCounter.c
	recvVec, kindVec, sendVec := base.recvMsgCounter.c, base.recvEventCounter.c, base.sendMsgCounter.c
	// lock discipline of the subscription registry: every access to reqCounter's
	// map happens with its mutex held (engine-side lockset monitor; the harness itself
	// does not touch the guarded struct after this point)
	vpGuardedBy(base.reqCounter, &base.reqCounter.mu, "vpFakeGauge")
	vpRunC19(base, connG, reqG, recvVec, kindVec, sendVec)
}
