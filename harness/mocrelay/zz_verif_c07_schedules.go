package mocrelay

import (
	"context"
	"sync"
)

func init() {
	vpHarnesses["vpH_C07_schedules"] = vpH_C07_schedules
	vpHarnesses["vpH_C07_slowreader"] = vpH_C07_slowreader
}

// C07 over schedules (bounded): three connections drive the real router.recv
// concurrently; the scheduler is part of the path: at every mutex, atomic and channel
// operation the running goroutine may be preempted in favour of any other runnable one
// (vpPreempt(k): every schedule with at most k preemptions is a path).
//
//	T  subscribed "t" to everything before the race starts
//	P  publishes e1                                  | concurrently
//	S  runs a script on its own connection:          |
//	     0: REQ b            1: REQ b, CLOSE b
//	     2: REQ b{kind k}, REQ b{}  (replacement)    3: REQ b, REQ c
//	   (e1's kind and k are symbolic)
//	T  optionally closes "t" during the race
//	after all finished P publishes e2 (kind 1).
//
// Judged by real-time order as the statement says: everything S did completed before
// e2 was sent, so e2 must reach exactly S's subscriptions that are open then, once,
// under their own ids; e1 raced with S and may or may not reach them, but at most once,
// only under an id S used, and never after e2; T must receive e1 then e2, once each.
func vpH_C07_schedules() {
	if !vpSymbolic() {
		vpReach("end")
		return
	}
	router := NewRouterHandler(8)
	ctx := context.Background()
	chT, chS, chP := make(chan ServerMsg, 8), make(chan ServerMsg, 8), make(chan ServerMsg, 8)
	e1 := &Event{ID: "e1", Kind: vpInt64("kind-of-e1"), Tags: []Tag{}}
	e2 := &Event{ID: "e2", Kind: 1, Tags: []Tag{}}
	all := []*ReqFilter{{}}
	router.recv(ctx, "conn-T", &ClientReqMsg{SubscriptionID: "t", ReqFilters: all}, chT)
	script := vpChoice("script", 4)
	tCloses := vpChoice("t-closes", 2) == 1
	if tCloses {
		vpPreempt(vpSteps(3, 5)) // three racing goroutines
	} else {
		vpPreempt(vpSteps(3, 100)) // thorough: every schedule at synchronisation-operation granularity
	}
	var wg sync.WaitGroup
	wg.Add(2)
	if tCloses {
		wg.Add(1)
		go func() {
			defer wg.Done()
			router.recv(ctx, "conn-T", &ClientCloseMsg{SubscriptionID: "t"}, chT)
		}()
	}
	go func() {
		defer wg.Done()
		ok, isOK := router.recv(ctx, "conn-P", &ClientEventMsg{Event: e1}, chP).(*ServerOKMsg)
		vpAssert(isOK && ok.Accepted && ok.EventID == "e1", "C07.schedules-event-answered-by-accepting-ok")
	}()
	go func() {
		defer wg.Done()
		switch script {
		case 0:
			router.recv(ctx, "conn-S", &ClientReqMsg{SubscriptionID: "b", ReqFilters: all}, chS)
		case 1:
			router.recv(ctx, "conn-S", &ClientReqMsg{SubscriptionID: "b", ReqFilters: all}, chS)
			router.recv(ctx, "conn-S", &ClientCloseMsg{SubscriptionID: "b"}, chS)
		case 2:
			router.recv(ctx, "conn-S", &ClientReqMsg{SubscriptionID: "b", ReqFilters: []*ReqFilter{{Kinds: []int64{vpInt64("first-b-kind")}}}}, chS)
			router.recv(ctx, "conn-S", &ClientReqMsg{SubscriptionID: "b", ReqFilters: all}, chS)
		case 3:
			router.recv(ctx, "conn-S", &ClientReqMsg{SubscriptionID: "b", ReqFilters: all}, chS)
			router.recv(ctx, "conn-S", &ClientReqMsg{SubscriptionID: "c", ReqFilters: all}, chS)
		}
	}()
	wg.Wait()
	vpPreempt(0)
	router.recv(ctx, "conn-P", &ClientEventMsg{Event: e2}, chP)

	// T: e1 then e2, once each, labelled t; when T closes t during the race: e1 at most once, e2 never
	gotT := vpDrainEvents(chT)
	if tCloses {
		vpAssert(len(gotT) <= 1, "C07.schedules-closed-subscription-gets-nothing-later")
		if len(gotT) == 1 {
			vpAssert(gotT[0].SubscriptionID == "t" && gotT[0].Event == e1, "C07.schedules-closed-subscription-gets-nothing-later")
		}
	} else {
		vpAssert(len(gotT) == 2, "C07.schedules-open-subscription-gets-every-event-once")
		if len(gotT) == 2 {
			vpAssert(gotT[0].SubscriptionID == "t" && gotT[0].Event == e1 && gotT[1].SubscriptionID == "t" && gotT[1].Event == e2,
				"C07.schedules-publication-order")
		}
	}
	// S
	want2 := map[string]bool{}
	switch script {
	case 0, 2:
		want2["b"] = true
	case 3:
		want2["b"], want2["c"] = true, true
	}
	n1 := map[string]int{}
	n2 := map[string]int{}
	seen2 := false
	for _, m := range vpDrainEvents(chS) {
		switch m.Event {
		case e1:
			n1[m.SubscriptionID]++
			vpAssert(!seen2, "C07.schedules-publication-order")
			vpAssert(m.SubscriptionID == "b" || (script == 3 && m.SubscriptionID == "c"), "C07.schedules-labelled-with-own-subscription-id")
		case e2:
			seen2 = true
			n2[m.SubscriptionID]++
		default:
			vpAssert(false, "C07.schedules-only-published-events")
		}
	}
	for _, id := range []string{"b", "c"} {
		vpAssert(n1[id] <= 1, "C07.schedules-at-most-once")
		if want2[id] {
			vpAssert(n2[id] == 1, "C07.schedules-open-subscription-gets-later-event-exactly-once")
		} else {
			vpAssert(n2[id] == 0, "C07.schedules-closed-subscription-gets-nothing-later")
		}
	}
	vpAssert(len(vpDrainEvents(chP)) == 0, "C07.schedules-no-subscription-no-delivery")
	vpReach("end")
}

func vpDrainEvents(ch chan ServerMsg) []*ServerEventMsg {
	var out []*ServerEventMsg
	for len(ch) > 0 {
		if m, ok := (<-ch).(*ServerEventMsg); ok {
			out = append(out, m)
		}
	}
	return out
}

// C07, last clause, over ALL schedules of a small scenario: subscription t's buffer (1)
// is full; the publisher publishes e1 while t's reader takes one message. Whatever the
// interleaving, the publisher must come back (a goroutine left blocked is reported as
// blocked:C07.publisher-delayed), the reader gets e0 first, and e1 is either delivered
// after it or dropped as t's own overflow; nothing else.
func vpH_C07_slowreader() {
	if !vpSymbolic() {
		vpReach("end")
		return
	}
	router := NewRouterHandler(1)
	ctx := context.Background()
	chT, chP := make(chan ServerMsg, 1), make(chan ServerMsg, 1)
	e0 := &Event{ID: "e0", Kind: 1, Tags: []Tag{}}
	e1 := &Event{ID: "e1", Kind: 1, Tags: []Tag{}}
	router.recv(ctx, "conn-T", &ClientReqMsg{SubscriptionID: "t", ReqFilters: []*ReqFilter{{}}}, chT)
	if len(chT) > 0 { // an EOSE queued on the connection's channel is read by the client first
		<-chT
	}
	router.recv(ctx, "conn-P", &ClientEventMsg{Event: e0}, chP)
	vpAssert(len(chT) == 1, "C07.slowreader-first-event-delivered")
	vpBlockedIsViolation("blocked:C07.publisher-delayed")
	vpPreempt(100)
	var first ServerMsg
	var wg sync.WaitGroup
	wg.Add(2)
	go func() {
		defer wg.Done()
		router.recv(ctx, "conn-P", &ClientEventMsg{Event: e1}, chP)
	}()
	go func() {
		defer wg.Done()
		first = <-chT
	}()
	wg.Wait()
	vpPreempt(0)
	m0, ok := first.(*ServerEventMsg)
	vpAssert(ok && m0.Event == e0 && m0.SubscriptionID == "t", "C07.slowreader-publication-order")
	rest := vpDrainEvents(chT)
	vpAssert(len(rest) <= 1, "C07.slowreader-at-most-once")
	if len(rest) == 1 {
		vpAssert(rest[0].Event == e1 && rest[0].SubscriptionID == "t", "C07.slowreader-publication-order")
	}
	vpReach("end")
}
