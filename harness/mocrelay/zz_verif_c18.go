package mocrelay

func init() {
	vpHarnesses["vpH_C18_quota"] = vpH_C18_quota
	vpHarnesses["vpH_C18_unique"] = vpH_C18_unique
	vpHarnesses["vpH_C18_perconn"] = vpH_C18_perconn
}

func vpSteps(quick, thorough int) int {
	if vpTier() > 0 {
		return thorough
	}
	return quick
}

func vpIndexOf(l []string, v string) int {
	for i, x := range l {
		if x == v { // decided (fork or already known from the implementation's own comparison)
			return i
		}
	}
	return -1
}

// C18 quota, through the exported constructor: N free (>= 1); two real sessions of the
// same middleware value; REQ/CLOSE steps with symbolic 1-byte ids. Ghost open-set per
// session. (Earlier versions drove the unexported base objects and so prescribed where
// the state lives; two correct refactorings were reported because of that.)
func vpH_C18_quota() {
	n := vpInt("N")
	vpAssume(n >= 1 && n <= 1<<20) // the session state may pre-size a table with N+1 buckets
	inner := &vpInner{}
	h := NewMaxSubscriptionsMiddleware(n)(inner)
	var ss [2]*vpMWSess
	for i := range ss {
		ss[i] = vpStartSession(h, inner)
		vpAssert(ss[i].inner != nil, "C18.start")
	}
	open := [2][]string{}
	steps := vpSteps(4, 5)
	for k := 0; k < steps; k++ {
		s := vpChoice("session", 2)
		id := vpSym1("id")
		if vpChoice("op", 2) == 0 {
			msg := &ClientReqMsg{SubscriptionID: id, ReqFilters: []*ReqFilter{{}}}
			fwd, rep := ss[s].client(msg)
			allowed := vpIndexOf(open[s], id) >= 0 || len(open[s]) < n
			vpVerdict("C18.quota", msg, allowed, fwd, rep)
			if allowed && vpIndexOf(open[s], id) < 0 {
				open[s] = append(open[s], id)
			}
		} else {
			msg := &ClientCloseMsg{SubscriptionID: id}
			fwd, rep := ss[s].client(msg)
			vpVerdict("C18.quota-close", msg, true, fwd, rep)
			if i := vpIndexOf(open[s], id); i >= 0 {
				open[s] = append(open[s][:i:i], open[s][i+1:]...)
			}
		}
		vpAssert(len(open[0]) <= n && len(open[1]) <= n, "C18.quota-at-most-N-open")
	}
	// server messages pass unchanged
	sm := vpGenServerMsg("s")
	out := ss[0].server(sm)
	vpAssert(len(out) == 1, "C18.quota.server-pass-one")
	if len(out) == 1 {
		vpAssert(vpUnchanged(out[0], sm), "C18.quota.server-pass-unchanged")
	}
	for i := range ss {
		ss[i].cancel()
	}
	vpReach("end")
}

// C18 unique filters, through the exported constructors (the real hashicorp/golang-lru or
// whatever the implementation uses is executed). size in {1,2,3}; EVENT steps with symbolic
// 1-byte ids on one session; ghost recency list.
func vpH_C18_unique() {
	size := 1 + vpChoice("size", 3)
	recvSide := vpChoice("side", 2) == 0
	inner := &vpInner{}
	var h Handler
	if recvSide {
		h = NewRecvEventUniqueFilterMiddleware(size)(inner)
	} else {
		h = NewSendEventUniqueFilterMiddleware(size)(inner)
	}
	ss := vpStartSession(h, inner)
	vpAssert(ss.inner != nil, "C18.start")
	var recent []string // most recent first, distinct
	steps := vpSteps(5, 6)
	for k := 0; k < steps; k++ {
		id := vpSym1("id")
		i := vpIndexOf(recent, id)
		inWindow := i >= 0 && i < size
		if recvSide {
			msg := &ClientEventMsg{Event: &Event{ID: id, Tags: []Tag{}}}
			fwd, rep := ss.client(msg)
			if inWindow {
				vpAssert(len(fwd) == 0, "C18.unique-repeat-not-forwarded")
				vpAssert(len(rep) == 1, "C18.unique-repeat-answered-once")
				if len(rep) == 1 {
					ok, isOK := rep[0].(*ServerOKMsg)
					vpAssert(isOK && !ok.Accepted && ok.EventID == id && ok.MsgPrefix == MachineReadablePrefixDuplicate, "C18.unique-duplicate-marked-rejection")
				}
			} else if i < 0 {
				vpAssert(len(fwd) == 1 && len(rep) == 0, "C18.unique-unseen-forwarded")
				if len(fwd) == 1 {
					vpAssert(vpUnchanged(fwd[0], msg), "C18.unique-forward-unchanged")
				}
			}
			// an id seen earlier but outside the window may go either way per the statement
		} else {
			msg := NewServerEventMsg("s", &Event{ID: id, Tags: []Tag{}})
			out := ss.server(msg)
			if inWindow {
				vpAssert(len(out) == 0, "C18.unique-send-repeat-dropped")
			} else if i < 0 {
				vpAssert(len(out) == 1, "C18.unique-send-unseen-delivered")
				if len(out) == 1 {
					vpAssert(vpUnchanged(out[0], msg), "C18.unique-send-unchanged")
				}
			}
		}
		// recency: id moves to the front
		if i >= 0 {
			recent = append(recent[:i:i], recent[i+1:]...)
		}
		recent = append([]string{id}, recent...)
	}
	// other message types are untouched by both filters
	m := &ClientCloseMsg{SubscriptionID: "x"}
	fwd, rep := ss.client(m)
	vpVerdict("C18.unique", m, true, fwd, rep)
	if recvSide {
		sm := NewServerEOSEMsg("x")
		out := ss.server(sm)
		vpAssert(len(out) == 1 && vpUnchanged(out[0], sm), "C18.unique.server-pass-unchanged")
	}
	ss.cancel()
	vpReach("end")
}

// C18: the de-duplication state is per connection: an id seen on one connection has not
// been seen on another connection of the same middleware value.
func vpH_C18_perconn() {
	inner := &vpInner{}
	recvSide := vpChoice("side", 2) == 0
	var h Handler
	if recvSide {
		h = NewRecvEventUniqueFilterMiddleware(2)(inner)
	} else {
		h = NewSendEventUniqueFilterMiddleware(2)(inner)
	}
	a := vpStartSession(h, inner)
	b := vpStartSession(h, inner)
	vpAssert(a.inner != nil && b.inner != nil, "C18.perconn-serve")
	id := vpSym1("id")
	if recvSide {
		m1 := &ClientEventMsg{Event: &Event{ID: id, Tags: []Tag{}}}
		fwd, _ := a.client(m1)
		vpAssert(len(fwd) == 1, "C18.unique-unseen-forwarded")
		m2 := &ClientEventMsg{Event: &Event{ID: id, Tags: []Tag{}}}
		fwd, rep := b.client(m2)
		vpAssert(len(fwd) == 1 && len(rep) == 0, "C18.perconn-state-not-shared")
		// and it IS a repeat on the first connection
		fwd, rep = a.client(m1)
		vpAssert(len(fwd) == 0 && len(rep) == 1, "C18.unique-repeat-not-forwarded")
	} else {
		m1 := NewServerEventMsg("s", &Event{ID: id, Tags: []Tag{}})
		vpAssert(len(a.server(m1)) == 1, "C18.unique-send-unseen-delivered")
		vpAssert(len(b.server(NewServerEventMsg("s", &Event{ID: id, Tags: []Tag{}}))) == 1, "C18.perconn-state-not-shared")
		vpAssert(len(a.server(m1)) == 0, "C18.unique-send-repeat-dropped")
	}
	a.cancel()
	b.cancel()
	vpReach("end")
}
