package exec

import (
	"fmt"
	"io"
	"os"
	"runtime/debug"
	"sort"
	"strings"
	"sync"
	"time"

	"golang.org/x/tools/go/ssa"
	"symgo/smt"
)

// ---------------------------------------------------------------------------
// Decisions, work items

type decKind uint8

const (
	dBranch  decKind = iota // Boolean branch decided by the solver
	dChoiceN                // n-way partition decided by the solver
	dFree                   // vpChoice: every alternative is explored, no solver
	dAssert                 // assertion discharged (unsat) on this path
	dAssume                 // assumption found feasible on this path
	dEnum                   // concretisation of a term: "== Val" or "!= Val"
)

type Decision struct {
	Kind   decKind
	Alt    int32
	N      int32
	Forced bool // only one alternative feasible: no solver frame
	Val    uint64
}

func (d Decision) String() string {
	k := [...]string{"br", "ch", "free", "assert", "assume", "enum"}[d.Kind]
	f := ""
	if d.Forced {
		f = "!"
	}
	return fmt.Sprintf("%s%s%d", k, f, d.Alt)
}

type Item struct {
	Prefix []Decision
	Model  smt.Model
}

// event mirrors what has been sent to the worker's solver.
type event struct {
	push bool
	alt  int32
}

// ---------------------------------------------------------------------------
// Results

type Violation struct {
	Label     string
	Msg       string
	Model     smt.Model
	Decisions []Decision
	Inputs    map[string]uint64 // named inputs (vars and free choices) for replay
	KF        string            // known-finding id when inside a declared region
	Where     string
}

// PathCase is a completed path made concrete by a model: its inputs and what
// the engine predicts the native run will observe (translator validation).
type PathCase struct {
	Inputs map[string]uint64 `json:"inputs"`
	Reach  []string          `json:"reach"`
	Obs    []string          `json:"obs"`
}

type obsRec struct {
	tag  string
	kind byte // 'i' signed int, 'u' unsigned, 'b' bool, 's' string
	v    Value
}

type PathSample struct {
	Decisions string            `json:"decisions"`
	End       string            `json:"end"`
	Inputs    map[string]uint64 `json:"inputs,omitempty"`
}

type Stats struct {
	Paths         int
	PathsOK       int
	PathsAssume   int
	PathsBlocked  int
	Decisions     int
	Forks         int
	Merges        int
	Steps         int64
	Queries       int
	QSat          int
	QUnsat        int
	QUnknown      int
	SolverTime    time.Duration
	Asserts       int // assertion obligations posed to the solver
	AssertsConst  int // assertions that were literally true on their path
	Discharged    int
	Reach         map[string]int
	Fns           map[string]bool
	Inconclusive  []string
	Violations    []*Violation
	KnownFindings map[string]int
	Samples       []PathSample
	Cases         []PathCase
	casesSeen     int
	SolverErrors  []string
	MaxDepth      int
}

// ---------------------------------------------------------------------------
// Per-path executor state

type Exec struct {
	p *Program
	w *Worker
	c *smt.Ctx

	prefix []Decision
	pos    int
	trace  []Decision
	evIdx  int
	model  smt.Model
	known  map[*smt.Term]bool

	constCache map[*ssa.Const]Value
	globals    map[*ssa.Global]*Value
	pkgInit    map[*ssa.Package]bool

	steps     int
	maxSteps  int
	depth     int
	lenient   int
	forceBody int
	curInit   *ssa.Function
	spec      int
	noMerge   bool

	byteConst [256]*smt.Term

	stubs      map[string]Value
	opaquePkgs map[string]bool
	realFns    map[string]bool
	callLog    []*CallRec

	inputs     map[string]uint64 // concrete mode when non-nil
	concrete   bool
	nameCount  map[string]int
	inputNames []string // order of creation: name#k
	inputW     map[string]int
	freeVals   map[string]uint64 // values taken by vpChoice on this path
	// bounded schedule exploration (vpPreempt): remaining preemptions on this path, and how many were taken
	preemptBudget, preemptions int

	opaqueStrs int
	uniq       int

	foldMaps    bool
	reverseMaps bool

	// goroutines
	cur       *G
	gs        []*G
	aborting  bool
	abortEnd  *pathEnd
	abortWith interface{}

	// locks and monitor
	locks  map[*Value]*lockState
	guards []*guardSpec
	// lockset monitor: cells/maps read without a lock, and cells/maps written under the lock
	unlockedReads    map[*Value]string
	guardedWrites    map[*Value]bool
	unlockedMapReads map[*Map]string
	guardedMapWrites map[*Map]bool
	lockLog          []string

	fnSeen map[string]bool
	reach  map[string]bool

	tier   int
	seed   int64
	trace_ bool
	traceW io.Writer

	obs    []obsRec
	kfOpen map[string]bool
	ext    map[interface{}]interface{} // scratch for intrinsics (json bindings, clocks, ...)
}

type CallRec struct {
	Fn   string
	Args []Value
	Ret  Value
}

// Worker owns one solver process.
type Worker struct {
	id     int
	x      *Explorer
	solver *smt.Solver
	ctx    *smt.Ctx
	events []event
	local  []Item
	mu     sync.Mutex
	st     Stats
	pure   map[*ssa.BasicBlock]bool
	rng    uint64
}

func (w *Worker) resetSolver() {
	w.solver.Pop(w.solver.Depth)
	w.solver.Push()
	w.events = w.events[:0]
}

// ---------------------------------------------------------------------------
// Solver mirroring

func (e *Exec) emitConstraint(t *smt.Term) {
	if e.concrete {
		return
	}
	w := e.w
	if e.evIdx < len(w.events) {
		if w.events[e.evIdx].push {
			e.truncateEvents()
		} else {
			e.evIdx++
			return
		}
	}
	w.solver.Assert(t)
	w.events = append(w.events, event{})
	e.evIdx++
}

func (e *Exec) emitPush(alt int32) {
	if e.concrete {
		return
	}
	w := e.w
	if e.evIdx < len(w.events) {
		ev := w.events[e.evIdx]
		if ev.push && ev.alt == alt {
			e.evIdx++
			return
		}
		e.truncateEvents()
	}
	w.solver.Push()
	w.events = append(w.events, event{push: true, alt: alt})
	e.evIdx++
}

// truncateEvents pops every solver frame opened at or after evIdx.
func (e *Exec) truncateEvents() {
	w := e.w
	n := 0
	for _, ev := range w.events[e.evIdx:] {
		if ev.push {
			n++
		}
	}
	// Constraints after evIdx that are not inside a later frame cannot be
	// retracted; this only happens if execution was not deterministic.
	if !w.events[e.evIdx].push {
		panic(pathEnd{endEngineBug, "solver mirror out of sync (non-deterministic re-execution)"})
	}
	w.solver.Pop(n)
	w.events = w.events[:e.evIdx]
}

// syncLive makes sure the solver holds exactly this path's constraints.
func (e *Exec) syncLive() {
	if e.evIdx < len(e.w.events) {
		e.truncateEvents()
	}
}

func (e *Exec) learn(t *smt.Term, val bool) {
	e.known[t] = val
	if t.Kind == smt.KNot {
		e.learn(t.Args[0], !val)
		return
	}
	if val && t.Kind == smt.KAnd {
		e.learn(t.Args[0], true)
		e.learn(t.Args[1], true)
	}
	if !val && t.Kind == smt.KOr {
		e.learn(t.Args[0], false)
		e.learn(t.Args[1], false)
	}
}

func (e *Exec) allVars() []*smt.Term {
	vs := make([]*smt.Term, 0, len(e.c.Vars))
	for _, v := range e.c.Vars {
		vs = append(vs, v)
	}
	sort.Slice(vs, func(i, j int) bool { return vs[i].Name < vs[j].Name })
	return vs
}

func (e *Exec) query(t *smt.Term, wantModel bool) (smt.Result, smt.Model) {
	e.syncLive()
	var r smt.Result
	var m smt.Model
	if wantModel {
		r, m = e.w.solver.CheckWithModel(t, e.allVars())
	} else {
		r = e.w.solver.CheckWith(t)
	}
	if r == smt.Unknown {
		panic(pathEnd{endInconclusive, "solver returned unknown/timeout on: " + clip(t.String(), 300)})
	}
	return r, m
}

func clip(s string, n int) string {
	if len(s) > n {
		return s[:n] + "..."
	}
	return s
}

// modelSays evaluates a Boolean term under the current model.
func (e *Exec) modelSays(t *smt.Term) bool { return smt.Eval(t, e.model) != 0 }

func (e *Exec) ensureModel() {
	if e.model != nil || e.concrete {
		return
	}
	e.syncLive()
	r := e.w.solver.Check()
	if r != smt.Sat {
		panic(pathEnd{endInconclusive, "path condition not satisfiable / unknown when a model was needed: " + r.String()})
	}
	e.model = e.w.solver.GetModel(e.allVars())
}

// ---------------------------------------------------------------------------
// Decision points

func (e *Exec) nextPrefix(kind decKind) (Decision, bool) {
	if e.pos < len(e.prefix) {
		d := e.prefix[e.pos]
		if d.Kind != kind {
			panic(pathEnd{endEngineBug, fmt.Sprintf("replay mismatch at decision %d: recorded %v, now kind %d", e.pos, d, kind)})
		}
		return d, true
	}
	return Decision{}, false
}

func (e *Exec) record(d Decision) {
	e.pos++
	e.trace = append(e.trace, d)
}

func (e *Exec) fork(d Decision, m smt.Model) {
	p := make([]Decision, len(e.trace)+1)
	copy(p, e.trace)
	p[len(e.trace)] = d
	e.w.pushItem(Item{Prefix: p, Model: m})
	e.w.st.Forks++
}

// decide returns the truth value of cond on this path, forking when both are feasible.
func (e *Exec) decide(cond *smt.Term) bool {
	if b, ok := cond.ConstBool(); ok {
		return b
	}
	if v, ok := e.known[cond]; ok {
		return v
	}
	if e.spec > 0 {
		panic(specAbort{})
	}
	if e.concrete {
		panic(pathEnd{endEngineBug, "symbolic condition in concrete mode: " + clip(cond.String(), 200)})
	}
	var take, forced bool
	if d, ok := e.nextPrefix(dBranch); ok {
		take, forced = d.Alt == 1, d.Forced
	} else {
		e.ensureModel()
		take = e.modelSays(cond)
		other := cond
		if take {
			other = e.c.Not(cond)
		}
		r, m := e.query(other, true)
		if r == smt.Unsat {
			forced = true
		} else {
			e.fork(Decision{Kind: dBranch, Alt: b2i(!take)}, m)
		}
	}
	e.record(Decision{Kind: dBranch, Alt: b2i(take), Forced: forced})
	c := cond
	if !take {
		c = e.c.Not(cond)
	}
	if !forced {
		e.emitPush(b2i(take))
		e.emitConstraint(c)
	}
	e.learn(cond, take)
	return take
}

func b2i(b bool) int32 {
	if b {
		return 1
	}
	return 0
}

// decideN picks one of mutually exclusive, jointly exhaustive conditions.
func (e *Exec) decideN(conds []*smt.Term, what string) int {
	// syntactic shortcuts
	nTrue, last := 0, -1
	allConst := true
	for i, c := range conds {
		if b, ok := c.ConstBool(); ok {
			if b {
				nTrue++
				last = i
			}
		} else if kv, ok := e.known[c]; ok && kv {
			return i
		} else {
			allConst = false
		}
	}
	if allConst {
		if nTrue != 1 {
			panic(pathEnd{endEngineBug, "decideN: constant alternatives are not a partition (" + what + ")"})
		}
		return last
	}
	if nTrue > 0 {
		return last
	}
	if e.spec > 0 {
		panic(specAbort{})
	}
	var alt int
	forced := false
	if d, ok := e.nextPrefix(dChoiceN); ok {
		alt, forced = int(d.Alt), d.Forced
	} else {
		e.ensureModel()
		alt = -1
		for i, c := range conds {
			if e.modelSays(c) {
				alt = i
				break
			}
		}
		if alt < 0 {
			panic(pathEnd{endEngineBug, "decideN: alternatives not exhaustive under the model (" + what + ")"})
		}
		nOther := 0
		for i, c := range conds {
			if i == alt {
				continue
			}
			if b, ok := c.ConstBool(); ok && !b {
				continue
			}
			if kv, ok := e.known[c]; ok && !kv {
				continue
			}
			r, m := e.query(c, true)
			if r == smt.Sat {
				e.fork(Decision{Kind: dChoiceN, Alt: int32(i), N: int32(len(conds))}, m)
				nOther++
			}
		}
		forced = nOther == 0
	}
	e.record(Decision{Kind: dChoiceN, Alt: int32(alt), N: int32(len(conds)), Forced: forced})
	if !forced {
		e.emitPush(int32(alt))
		e.emitConstraint(conds[alt])
	}
	e.learn(conds[alt], true)
	return alt
}

// enumerate makes an integer term concrete by trying the model's value first
// and forking on "different" (bounded: at most maxEnum distinct values).
func (e *Exec) enumerate(t *smt.Term, what string) int64 {
	const maxEnum = 64
	for n := 0; n < maxEnum; n++ {
		if s, ok := t.ConstS(); ok {
			return s
		}
		if e.spec > 0 {
			panic(specAbort{})
		}
		if e.concrete {
			panic(pathEnd{endEngineBug, "symbolic term in concrete mode"})
		}
		var v uint64
		var take, forced bool
		if d, ok := e.nextPrefix(dEnum); ok {
			v, take, forced = d.Val, d.Alt == 1, d.Forced
		} else {
			e.ensureModel()
			v = smt.Eval(t, e.model)
			take = true
			r, m := e.query(e.c.Not(e.c.Eq(t, e.c.BV(v, t.W))), true)
			if r == smt.Unsat {
				forced = true
			} else {
				e.fork(Decision{Kind: dEnum, Alt: 0, Val: v}, m)
			}
		}
		e.record(Decision{Kind: dEnum, Alt: b2i(take), Val: v, Forced: forced})
		eq := e.c.Eq(t, e.c.BV(v, t.W))
		c := eq
		if !take {
			c = e.c.Not(eq)
		}
		if !forced {
			e.emitPush(b2i(take))
			e.emitConstraint(c)
		}
		e.learn(eq, take)
		if take {
			return sextTo64(v, t.W)
		}
	}
	panic(pathEnd{endUnsupported, "symbolic " + what + " with more than 64 feasible values" + e.where()})
}

func sextTo64(v uint64, w int) int64 {
	if w >= 64 {
		return int64(v)
	}
	sh := uint(64 - w)
	return int64(v<<sh) >> sh
}

// freeChoice explores all n alternatives without consulting the solver.
func (e *Exec) freeChoice(name string, n int) int {
	if n <= 0 {
		panic(pathEnd{endEngineBug, "vpChoice with n <= 0"})
	}
	if e.concrete {
		return int(e.inputs[name])
	}
	alt := 0
	if d, ok := e.nextPrefix(dFree); ok {
		alt = int(d.Alt)
	} else if n > 1 {
		for i := n - 1; i >= 1; i-- {
			e.fork(Decision{Kind: dFree, Alt: int32(i), N: int32(n)}, nil)
		}
	}
	e.record(Decision{Kind: dFree, Alt: int32(alt), N: int32(n)})
	if n > 1 {
		e.emitPush(int32(alt))
	}
	e.freeVals[name] = uint64(alt)
	return alt
}

// ---------------------------------------------------------------------------
// Assertions and assumptions

func (e *Exec) assume(cond *smt.Term) {
	if b, ok := cond.ConstBool(); ok {
		if !b {
			panic(pathEnd{endAssume, "assumption false"})
		}
		return
	}
	if v, ok := e.known[cond]; ok {
		if !v {
			panic(pathEnd{endAssume, "assumption contradicts path"})
		}
		return
	}
	if _, ok := e.nextPrefix(dAssume); ok {
		// feasible when first explored
	} else {
		e.ensureModel()
		if !e.modelSays(cond) {
			r, m := e.query(cond, true)
			if r == smt.Unsat {
				panic(pathEnd{endAssume, "assumption infeasible"})
			}
			e.model = m
		}
	}
	e.record(Decision{Kind: dAssume, Alt: 1, Forced: true})
	e.emitConstraint(cond)
	e.learn(cond, true)
}

// inputsFromModel turns a model into named inputs (vars + free choices).
func (e *Exec) inputsFromModel(m smt.Model) map[string]uint64 {
	in := map[string]uint64{}
	for _, n := range e.inputNames {
		in[n] = m[n]
	}
	for k, v := range e.freeVals {
		in[k] = v
	}
	return in
}

func (e *Exec) violation(label, msg string, m smt.Model, kf string) {
	v := &Violation{Label: label, Msg: msg, Model: m, KF: kf, Where: e.where()}
	v.Decisions = append([]Decision(nil), e.trace...)
	v.Inputs = e.inputsFromModel(m)
	e.w.addViolation(v)
}

// assertHolds checks cond on the current path. kf/region implement known findings.
func (e *Exec) assertHolds(cond *smt.Term, label string, kf string, inRegion *smt.Term) {
	e.w.st.Reach["assert:"+label]++
	if b, ok := cond.ConstBool(); ok && b {
		e.w.st.AssertsConst++
		return
	}
	if v, ok := e.known[cond]; ok && v {
		e.w.st.AssertsConst++
		return
	}
	if e.concrete {
		if b, ok := cond.ConstBool(); ok && !b {
			e.violation(label, "assertion failed (concrete)", smt.Model{}, "")
			panic(pathEnd{endViolation, label})
		}
		panic(pathEnd{endEngineBug, "symbolic assertion in concrete mode"})
	}
	if _, ok := e.nextPrefix(dAssert); ok {
		e.record(Decision{Kind: dAssert, Alt: 1, Forced: true})
		e.learn(cond, true)
		return
	}
	e.w.st.Asserts++
	neg := e.c.Not(cond)
	kfOpen := kf != "" && e.kfOpen[kf]
	if kfOpen && inRegion != nil {
		// a violation outside the declared region is a new violation
		r, m := e.query(e.c.And(neg, e.c.Not(inRegion)), true)
		if r == smt.Sat {
			e.violation(label, "assertion violated outside known-finding region "+kf, m, "")
			panic(pathEnd{endViolation, label})
		}
		r, m = e.query(e.c.And(neg, inRegion), true)
		if r == smt.Sat {
			e.violation(label, "known finding "+kf, m, kf)
			// continue the path outside the region
			e.assume(e.c.Not(inRegion))
		}
		e.w.st.Discharged++
		e.record(Decision{Kind: dAssert, Alt: 1, Forced: true})
		e.learn(cond, true)
		return
	}
	r, m := e.query(neg, true)
	if r == smt.Sat {
		e.violation(label, "assertion violated", m, "")
		panic(pathEnd{endViolation, label})
	}
	e.w.st.Discharged++
	e.record(Decision{Kind: dAssert, Alt: 1, Forced: true})
	e.learn(cond, true)
}

// ---------------------------------------------------------------------------
// Explorer

type Explorer struct {
	P        *Program
	Harness  *ssa.Function
	Workers  []*Worker
	NWorker  int
	Solver   string
	Timeout  int // per query, ms
	Tier     int
	Seed     int64
	MaxStep  int
	Trace    bool
	KFOpen   map[string]bool
	Reverse  bool
	NoFold   bool
	NoMerge  bool
	Progress bool
	MaxViol  int
	NCases   int // sampled completed paths kept for native validation (per worker)

	mu          sync.Mutex
	outstanding int
	cond        *sync.Cond
	stop        bool
	stopReason  string
	Deadline    time.Time
}

func (w *Worker) pushItem(it Item) {
	w.x.mu.Lock()
	w.x.outstanding++
	w.x.mu.Unlock()
	w.mu.Lock()
	w.local = append(w.local, it)
	w.mu.Unlock()
	w.x.cond.Broadcast()
}

func (w *Worker) addViolation(v *Violation) {
	if v.KF != "" {
		w.st.KnownFindings[v.KF]++
		// keep one example per known finding
		for _, o := range w.st.Violations {
			if o.KF == v.KF {
				return
			}
		}
	}
	w.st.Violations = append(w.st.Violations, v)
}

func (w *Worker) popLocal() (Item, bool) {
	w.mu.Lock()
	defer w.mu.Unlock()
	if n := len(w.local); n > 0 {
		it := w.local[n-1]
		w.local = w.local[:n-1]
		return it, true
	}
	return Item{}, false
}

func (w *Worker) stealFrom() (Item, bool) {
	w.mu.Lock()
	defer w.mu.Unlock()
	if n := len(w.local); n > 0 {
		it := w.local[0] // oldest = shallowest: biggest subtree
		w.local = w.local[1:]
		return it, true
	}
	return Item{}, false
}

func (x *Explorer) take(w *Worker) (Item, bool) {
	for {
		x.mu.Lock()
		stopped := x.stop
		x.mu.Unlock()
		if stopped {
			x.cond.Broadcast()
			return Item{}, false
		}
		if it, ok := w.popLocal(); ok {
			return it, true
		}
		// steal from the busiest
		var best *Worker
		bn := 0
		for _, o := range x.Workers {
			if o == w {
				continue
			}
			o.mu.Lock()
			n := len(o.local)
			o.mu.Unlock()
			if n > bn {
				bn, best = n, o
			}
		}
		if best != nil {
			if it, ok := best.stealFrom(); ok {
				return it, true
			}
			continue
		}
		x.mu.Lock()
		if x.outstanding == 0 || x.stop {
			x.mu.Unlock()
			x.cond.Broadcast()
			return Item{}, false
		}
		x.cond.Wait()
		x.mu.Unlock()
	}
}

func (x *Explorer) done1() {
	x.mu.Lock()
	x.outstanding--
	z := x.outstanding == 0
	x.mu.Unlock()
	if z {
		x.cond.Broadcast()
	}
}

// Run explores the harness exhaustively (within its bounds) and returns merged statistics.
func (x *Explorer) Run() (*Stats, error) {
	x.cond = sync.NewCond(&x.mu)
	debug.SetGCPercent(800)
	if x.NWorker <= 0 {
		x.NWorker = 1
	}
	if x.MaxViol <= 0 {
		x.MaxViol = 8
	}
	for i := 0; i < x.NWorker; i++ {
		s, err := smt.StartSolver(x.Solver, x.Timeout)
		if err != nil {
			return nil, err
		}
		w := &Worker{id: i, x: x, solver: s, ctx: smt.NewCtx(), rng: uint64(x.Seed)*2654435761 + uint64(i) + 1}
		w.st.Reach = map[string]int{}
		w.st.Fns = map[string]bool{}
		w.st.KnownFindings = map[string]int{}
		s.Push()
		x.Workers = append(x.Workers, w)
	}
	defer func() {
		for _, w := range x.Workers {
			w.solver.Close()
		}
	}()
	x.Workers[0].pushItem(Item{})
	var wg sync.WaitGroup
	if x.Progress {
		stopProg := make(chan struct{})
		defer close(stopProg)
		go func() {
			t0 := time.Now()
			for {
				select {
				case <-stopProg:
					return
				case <-time.After(10 * time.Second):
					n, q := 0, 0
					for _, w := range x.Workers {
						n += w.st.Paths
						q += len(w.local)
					}
					fmt.Fprintf(os.Stderr, "    [%s] %.0fs paths=%d pending=%d\n", x.Harness.Name(), time.Since(t0).Seconds(), n, q)
				}
			}
		}()
	}
	for _, w := range x.Workers {
		wg.Add(1)
		go func(w *Worker) {
			defer wg.Done()
			for {
				it, ok := x.take(w)
				if !ok {
					return
				}
				w.runPath(it)
				x.done1()
				if !x.Deadline.IsZero() && time.Now().After(x.Deadline) {
					x.mu.Lock()
					x.stop = true
					x.stopReason = "wall-clock budget exhausted"
					x.mu.Unlock()
					x.cond.Broadcast()
				}
				if len(w.st.Violations) >= x.MaxViol {
					nonKF := 0
					for _, v := range w.st.Violations {
						if v.KF == "" {
							nonKF++
						}
					}
					if nonKF >= x.MaxViol {
						x.mu.Lock()
						x.stop = true
						x.mu.Unlock()
						x.cond.Broadcast()
					}
				}
			}
		}(w)
	}
	wg.Wait()
	// merge
	tot := &Stats{Reach: map[string]int{}, Fns: map[string]bool{}, KnownFindings: map[string]int{}}
	for _, w := range x.Workers {
		s := &w.st
		tot.Paths += s.Paths
		tot.PathsOK += s.PathsOK
		tot.PathsAssume += s.PathsAssume
		tot.PathsBlocked += s.PathsBlocked
		tot.Decisions += s.Decisions
		tot.Forks += s.Forks
		tot.Merges += s.Merges
		tot.Steps += s.Steps
		tot.Asserts += s.Asserts
		tot.AssertsConst += s.AssertsConst
		tot.Discharged += s.Discharged
		tot.Queries += w.solver.Queries
		tot.QSat += w.solver.NSat
		tot.QUnsat += w.solver.NUnsat
		tot.QUnknown += w.solver.NUnknown
		tot.SolverTime += w.solver.Time
		tot.SolverErrors = append(tot.SolverErrors, w.solver.Errors...)
		if s.MaxDepth > tot.MaxDepth {
			tot.MaxDepth = s.MaxDepth
		}
		for k, v := range s.Reach {
			tot.Reach[k] += v
		}
		for k := range s.Fns {
			tot.Fns[k] = true
		}
		for k, v := range s.KnownFindings {
			tot.KnownFindings[k] += v
		}
		tot.Inconclusive = append(tot.Inconclusive, s.Inconclusive...)
		tot.Violations = append(tot.Violations, s.Violations...)
		tot.Samples = append(tot.Samples, s.Samples...)
		tot.Cases = append(tot.Cases, s.Cases...)
	}
	x.mu.Lock()
	if x.stop && x.stopReason != "" {
		tot.Inconclusive = append(tot.Inconclusive, x.stopReason)
	}
	x.mu.Unlock()
	if len(tot.SolverErrors) > 0 {
		tot.Inconclusive = append(tot.Inconclusive, "solver error output: "+clip(strings.Join(tot.SolverErrors, "; "), 400))
	}
	return tot, nil
}

func (x *Explorer) newExec(w *Worker, it Item) *Exec {
	w.ctx.Reset()
	e := &Exec{p: x.P, w: w, c: w.ctx, prefix: it.Prefix, model: it.Model}
	e.known = map[*smt.Term]bool{}
	e.globals = map[*ssa.Global]*Value{}
	e.constCache = make(map[*ssa.Const]Value, 256)
	e.pkgInit = map[*ssa.Package]bool{}
	e.maxSteps = x.MaxStep
	if e.maxSteps == 0 {
		e.maxSteps = 20_000_000
	}
	for i := 0; i < 256; i++ {
		e.byteConst[i] = e.c.BV(uint64(i), 8)
	}
	e.stubs = map[string]Value{}
	e.opaquePkgs = map[string]bool{}
	e.realFns = map[string]bool{}
	e.nameCount = map[string]int{}
	e.inputW = map[string]int{}
	e.freeVals = map[string]uint64{}
	e.preemptBudget, e.preemptions = 0, 0
	e.unlockedReads, e.guardedWrites = map[*Value]string{}, map[*Value]bool{}
	e.unlockedMapReads, e.guardedMapWrites = map[*Map]string{}, map[*Map]bool{}
	e.locks = map[*Value]*lockState{}
	e.fnSeen = w.st.Fns
	e.reach = map[string]bool{}
	e.tier = x.Tier
	e.seed = x.Seed
	e.kfOpen = x.KFOpen
	e.foldMaps = !x.NoFold
	e.reverseMaps = x.Reverse
	e.noMerge = x.NoMerge
	e.ext = map[interface{}]interface{}{}
	e.trace_ = x.Trace
	e.traceW = os.Stderr
	return e
}

// runPath executes the harness once along the item's decision prefix.
func (w *Worker) runPath(it Item) {
	x := w.x
	e := x.newExec(w, it)
	end := e.runMain(x.Harness)
	st := &w.st
	st.Paths++
	st.Decisions += len(e.trace)
	st.Steps += int64(e.steps)
	if len(e.trace) > st.MaxDepth {
		st.MaxDepth = len(e.trace)
	}
	switch end.kind {
	case endOK:
		st.PathsOK++
		for k := range e.reach {
			st.Reach[k]++
		}
	case endAssume:
		st.PathsAssume++
	case endBlocked:
		st.PathsBlocked++
		st.Inconclusive = append(st.Inconclusive, "path BLOCKED (all goroutines blocked): "+end.msg)
	case endViolation:
	case endUnsupported:
		st.Inconclusive = append(st.Inconclusive, "unsupported: "+end.msg)
	case endBudget:
		st.Inconclusive = append(st.Inconclusive, "unwind/budget: "+end.msg)
	case endInconclusive:
		st.Inconclusive = append(st.Inconclusive, end.msg)
	case endEngineBug:
		st.Inconclusive = append(st.Inconclusive, "engine bug: "+end.msg)
		// the solver mirror may be stale: start afresh
		w.resetSolver()
	}
	if end.kind == endOK && x.NCases > 0 && !e.concrete {
		w.sampleCase(e)
	}
	if len(st.Samples) < 3 && (end.kind == endOK) && len(e.trace) > 0 {
		var ds []string
		for _, d := range e.trace {
			ds = append(ds, d.String())
		}
		ps := PathSample{Decisions: strings.Join(ds, " "), End: end.kind.String()}
		if e.model != nil {
			ps.Inputs = e.inputsFromModel(e.model)
		}
		st.Samples = append(st.Samples, ps)
	}
	if len(st.Inconclusive) > 50 {
		st.Inconclusive = st.Inconclusive[:50]
	}
}

// sampleCase keeps a reservoir sample of completed paths as concrete cases.
func (w *Worker) sampleCase(e *Exec) {
	st := &w.st
	st.casesSeen++
	slot := -1
	if len(st.Cases) < w.x.NCases {
		slot = len(st.Cases)
		st.Cases = append(st.Cases, PathCase{})
	} else {
		w.rng = w.rng*6364136223846793005 + 1442695040888963407
		k := int((w.rng >> 33) % uint64(st.casesSeen))
		if k < w.x.NCases {
			slot = k
		}
	}
	if slot < 0 {
		return
	}
	ok := func() (ok bool) {
		defer func() {
			if r := recover(); r != nil {
				ok = false
			}
		}()
		e.ensureModel()
		return true
	}()
	if !ok {
		st.Cases = st.Cases[:len(st.Cases)-1]
		return
	}
	pc := PathCase{Inputs: e.inputsFromModel(e.model)}
	for k := range e.reach {
		pc.Reach = append(pc.Reach, k)
	}
	sort.Strings(pc.Reach)
	for _, o := range e.obs {
		pc.Obs = append(pc.Obs, e.renderObs(o))
	}
	st.Cases[slot] = pc
}

func (e *Exec) renderObs(o obsRec) string {
	switch o.kind {
	case 'b':
		return fmt.Sprintf("%s=%v", o.tag, smt.Eval(o.v.(*smt.Term), e.model) != 0)
	case 'i':
		t := o.v.(*smt.Term)
		return fmt.Sprintf("%s=%d", o.tag, sextTo64(smt.Eval(t, e.model), t.W))
	case 'u':
		return fmt.Sprintf("%s=%d", o.tag, smt.Eval(o.v.(*smt.Term), e.model))
	case 's':
		s := o.v.(Str)
		if s.OpaqueID != 0 {
			return o.tag + "=<opaque>"
		}
		b := make([]byte, len(s.B))
		for i, t := range s.B {
			b[i] = byte(smt.Eval(t, e.model))
		}
		return fmt.Sprintf("%s=%x", o.tag, b)
	}
	return o.tag
}

// runMain runs fn as the main goroutine of a fresh path.
func (e *Exec) runMain(fn *ssa.Function) (end pathEnd) {
	main := &G{id: 0, e: e, wake: make(chan struct{}, 1)}
	e.gs = []*G{main}
	e.cur = main
	defer func() {
		if r := recover(); r != nil {
			switch r := r.(type) {
			case pathEnd:
				end = r
			case targetPanic:
				// uncaught panic of the program under test = violated implicit assertion
				if !e.concrete {
					func() {
						defer func() {
							if r2 := recover(); r2 != nil {
								if pe, ok := r2.(pathEnd); ok {
									end = pe
									return
								}
								panic(r2)
							}
						}()
						e.ensureModel()
					}()
				}
				if end.kind == endOK {
					m := e.model
					if m == nil {
						m = smt.Model{}
					}
					e.violation("no-panic", "uncaught panic: "+r.msg, m, "")
					end = pathEnd{endViolation, "panic: " + r.msg}
				}
			case lenientFail:
				end = pathEnd{endUnsupported, r.msg}
			default:
				end = pathEnd{endEngineBug, fmt.Sprintf("%v%s\n%s", r, e.where(), clip(string(debug.Stack()), 3000))}
			}
		}
		e.killGoroutines()
	}()
	func() {
		defer func() {
			// a harness may declare that blocking forever is a violation (C07: publishers are never delayed)
			if r := recover(); r != nil {
				if pe, ok := r.(pathEnd); ok && pe.kind == endBlocked {
					if lbl, ok := e.ext["blocked-label"].(string); ok && lbl != "" {
						m := e.model
						if m == nil {
							m = smt.Model{}
						}
						e.violation(lbl, "execution blocked forever: "+pe.msg, m, "")
						panic(pathEnd{endViolation, lbl})
					}
				}
				panic(r)
			}
		}()
		e.callSSA(nil, 0, fn, nil, nil)
	}()
	if e.abortEnd != nil {
		return *e.abortEnd
	}
	return pathEnd{endOK, ""}
}

// RunConcrete executes the harness once with fixed inputs (no solver): the
// concrete-engine mode used to replay counterexamples of stub-based harnesses.
// It returns how the path ended and, for violations, the failing label.
func RunConcrete(p *Program, fn *ssa.Function, inputs map[string]uint64, tier int, reverseMaps bool) (end string, label string) {
	x := &Explorer{P: p, Harness: fn, Tier: tier, Reverse: reverseMaps}
	x.cond = sync.NewCond(&x.mu)
	w := &Worker{id: 0, x: x, ctx: smt.NewCtx()}
	w.st.Reach = map[string]int{}
	w.st.Fns = map[string]bool{}
	w.st.KnownFindings = map[string]int{}
	e := x.newExec(w, Item{})
	e.concrete = true
	e.inputs = inputs
	if e.inputs == nil {
		e.inputs = map[string]uint64{}
	}
	pe := e.runMain(fn)
	if len(w.st.Violations) > 0 {
		return "violation", w.st.Violations[0].Label
	}
	return pe.kind.String(), pe.msg
}
