package exec

import (
	"golang.org/x/tools/go/ssa"
	"symgo/smt"
)

// A matcher for the anchored patterns the repository uses, on symbolic bytes.
// Supported syntax: ^ followed by a concatenation of items, each a single
// character class (literal, \[ \] escapes, \s, \w, \d, ".") optionally
// followed by * or +, with capture groups ( ... ) around sub-sequences.
// Greedy repetition is deterministic when the class that follows is disjoint
// from the repeated class or the pattern ends, which is checked; any other
// pattern is unsupported (INCONCLUSIVE, never a verdict).

type reItem struct {
	class    func(e *Exec, b *smt.Term) *smt.Term
	set      [256]bool
	star     bool
	plus     bool
	grpOpen  []int // capture groups opening before this item
	grpClose []int // capture groups closing after this item
}

func classSet(spec string) (set [256]bool, ok bool) {
	switch spec {
	case `\s`:
		for _, c := range []byte{'\t', '\n', '\f', '\r', ' '} {
			set[c] = true
		}
	case `\w`:
		for c := 0; c < 256; c++ {
			if c >= '0' && c <= '9' || c >= 'a' && c <= 'z' || c >= 'A' && c <= 'Z' || c == '_' {
				set[c] = true
			}
		}
	case `\d`:
		for c := '0'; c <= '9'; c++ {
			set[c] = true
		}
	default:
		if len(spec) == 2 && spec[0] == '\\' {
			set[spec[1]] = true
		} else if len(spec) == 1 {
			set[spec[0]] = true
		} else {
			return set, false
		}
	}
	return set, true
}

func parseRegexp(pat string) (items []*reItem, ngroups int, ok bool) {
	if len(pat) == 0 || pat[0] != '^' {
		return nil, 0, false
	}
	i := 1
	var pendingOpen []int
	var stack []int
	for i < len(pat) {
		c := pat[i]
		switch c {
		case '(':
			ngroups++
			pendingOpen = append(pendingOpen, ngroups)
			stack = append(stack, ngroups)
			i++
			continue
		case ')':
			if len(stack) == 0 {
				return nil, 0, false
			}
			g := stack[len(stack)-1]
			stack = stack[:len(stack)-1]
			if len(items) == 0 || len(pendingOpen) > 0 {
				// empty group or group opening immediately closed: unsupported
				return nil, 0, false
			}
			items[len(items)-1].grpClose = append(items[len(items)-1].grpClose, g)
			i++
			continue
		case '*', '+', '?', '|', '[', ']', '{', '}', '$', '.':
			return nil, 0, false
		}
		spec := string(c)
		if c == '\\' {
			if i+1 >= len(pat) {
				return nil, 0, false
			}
			spec = pat[i : i+2]
			i++
		}
		i++
		set, ok := classSet(spec)
		if !ok {
			return nil, 0, false
		}
		it := &reItem{set: set, grpOpen: pendingOpen}
		pendingOpen = nil
		if i < len(pat) && (pat[i] == '*' || pat[i] == '+') {
			it.star = pat[i] == '*'
			it.plus = pat[i] == '+'
			i++
		}
		items = append(items, it)
	}
	if len(stack) != 0 || len(pendingOpen) != 0 {
		return nil, 0, false
	}
	// determinism of greedy repetition
	for k, it := range items {
		if !(it.star || it.plus) || k+1 >= len(items) {
			continue
		}
		nx := items[k+1]
		for c := 0; c < 256; c++ {
			if it.set[c] && nx.set[c] {
				return nil, 0, false
			}
		}
		if nx.star {
			return nil, 0, false
		}
	}
	return items, ngroups, true
}

func (e *Exec) inClass(set *[256]bool, b *smt.Term) *smt.Term {
	if v, ok := b.ConstU(); ok {
		return e.c.Bool(set[v])
	}
	// ranges
	r := e.c.False
	for lo := 0; lo < 256; lo++ {
		if !set[lo] {
			continue
		}
		hi := lo
		for hi+1 < 256 && set[hi+1] {
			hi++
		}
		if lo == hi {
			r = e.c.Or(r, e.c.Eq(b, e.byteConst[lo]))
		} else {
			r = e.c.Or(r, e.c.And(e.c.Cmp(smt.KUle, e.byteConst[lo], b), e.c.Cmp(smt.KUle, b, e.byteConst[hi])))
		}
		lo = hi
	}
	return r
}

// regexpFindSubmatch implements (*Regexp).FindSubmatch(b) [][]byte.
func regexpFindSubmatch(e *Exec, _ *frame, _ *ssa.Function, a []Value) Value {
	re, ok := a[0].(*Opaque)
	if !ok || re.Kind != "regexp" {
		e.unsupported("FindSubmatch on a non-engine regexp")
	}
	items, ngroups, ok := parseRegexp(re.Name)
	if !ok {
		e.unsupported("regexp pattern outside the supported fragment: %s", re.Name)
	}
	in := a[1].(Slice)
	b := sliceBytes(in)
	pos := 0
	start := make([]int, ngroups+1)
	end := make([]int, ngroups+1)
	for _, it := range items {
		for _, g := range it.grpOpen {
			start[g] = pos
		}
		if it.star || it.plus {
			n := 0
			for pos < len(b) && e.decide(e.inClass(&it.set, b[pos])) {
				pos++
				n++
			}
			if it.plus && n == 0 {
				return Slice{}
			}
		} else {
			if pos >= len(b) || !e.decide(e.inClass(&it.set, b[pos])) {
				return Slice{}
			}
			pos++
		}
		for _, g := range it.grpClose {
			end[g] = pos
		}
	}
	end[0] = pos
	out := make([]Value, ngroups+1)
	for g := 0; g <= ngroups; g++ {
		if in.A == nil {
			out[g] = Slice{A: []Value{}}
		} else {
			out[g] = Slice{A: in.A[start[g]:end[g]:end[g]]}
		}
	}
	return Slice{A: out}
}
