package mocrelay

import (
	"context"
	"fmt"
)

func init() {
	vpHarnesses["vpH_C07_sessions"] = vpH_C07_sessions
}

// (kept in its own file and restricted to the exported API, so that a change to
// the router's unexported seams cannot make it unavailable)
type vpSessSub struct {
	id string
	fs []*ReqFilter
}

// C07 through the public API: each connection is a real RouterHandler.ServeNostr
// session (its own goroutines) fed through its inbound channel; the harness is
// the clients. ONE canonical cooperative schedule (the engine's): after every
// client message all sessions run until they block, so every message is fully
// processed before the next is sent (the "must" cases of the statement: EOSE
// received before the EVENT was sent, REQ sent after the OK). Outputs are
// compared with the ghost registry as multisets per connection.
func vpH_C07_sessions() {
	buflen := 2
	router := NewRouterHandler(buflen)
	const nconn = 2
	var recvs [nconn]chan ClientMsg
	var sends [nconn]chan ServerMsg
	var done [nconn]chan error
	ghost := make([][]vpSessSub, nconn)
	alive := [nconn]bool{true, true}
	for i := 0; i < nconn; i++ {
		recvs[i] = make(chan ClientMsg, 1)
		sends[i] = make(chan ServerMsg, 16)
		done[i] = make(chan error, 1)
		i := i
		go func() { done[i] <- router.ServeNostr(context.Background(), sends[i], recvs[i]) }()
	}
	settle := func() {
		for i := 0; i < 6; i++ {
			vpYield()
		}
	}
	drain := func(i int) []ServerMsg {
		var out []ServerMsg
		for len(sends[i]) > 0 {
			out = append(out, <-sends[i])
		}
		return out
	}
	steps := vpSteps(3, 4)
	nev := 0
	for k := 0; k < steps; k++ {
		c := vpChoice("conn", nconn)
		vpAssume(alive[c])
		switch vpChoice("op", 4) {
		case 0: // REQ
			sub := vpSym1("sub")
			var fl []*ReqFilter
			switch vpChoice("filter", 3) {
			case 0:
				fl = []*ReqFilter{{}}
			case 1:
				fl = []*ReqFilter{{Kinds: []int64{vpInt64("fkind")}}}
			case 2: // a filter list: a match of any member counts
				fl = []*ReqFilter{{Kinds: []int64{vpInt64("fkind")}}, {Authors: []string{vpSym1("fauthor")}}}
			}
			recvs[c] <- &ClientReqMsg{SubscriptionID: sub, ReqFilters: fl}
			settle()
			out := drain(c)
			vpAssert(len(out) == 1, "C07.session-req-one-reply")
			if len(out) == 1 {
				eose, isE := out[0].(*ServerEOSEMsg)
				vpAssert(isE && eose.SubscriptionID == sub, "C07.session-req-answered-by-eose")
			}
			replaced := false
			for i := range ghost[c] {
				if ghost[c][i].id == sub {
					ghost[c][i].fs = fl
					replaced = true
				}
			}
			if !replaced {
				ghost[c] = append(ghost[c], vpSessSub{sub, fl})
			}
		case 1: // CLOSE
			sub := vpSym1("sub")
			recvs[c] <- &ClientCloseMsg{SubscriptionID: sub}
			settle()
			vpAssert(len(drain(c)) == 0, "C07.session-close-unanswered")
			for i := range ghost[c] {
				if ghost[c][i].id == sub {
					ghost[c] = append(ghost[c][:i:i], ghost[c][i+1:]...)
					break
				}
			}
		case 2: // EVENT
			ev := &Event{ID: fmt.Sprintf("e%d", nev), Pubkey: "A", Kind: vpInt64("kind"), CreatedAt: 1, Tags: []Tag{}}
			nev++
			recvs[c] <- &ClientEventMsg{Event: ev}
			settle()
			for i := 0; i < nconn; i++ {
				out := drain(i)
				var want []string
				if alive[i] {
					for _, g := range ghost[i] {
						if specMatchAny(g.fs, ev) {
							want = append(want, g.id)
						}
					}
				}
				nOK := 0
				var seen []string
				for _, m := range out {
					switch m := m.(type) {
					case *ServerOKMsg:
						nOK++
						vpAssert(i == c && m.Accepted && m.EventID == ev.ID, "C07.session-event-answered-by-accepting-ok")
					case *ServerEventMsg:
						vpAssert(m.Event == ev, "C07.session-delivery-carries-the-event")
						vpAssert(vpIndexOf(want, m.SubscriptionID) >= 0, "C07.session-delivery-to-open-matching-subscription")
						vpAssert(vpIndexOf(seen, m.SubscriptionID) < 0, "C07.session-at-most-once")
						seen = append(seen, m.SubscriptionID)
					default:
						vpAssert(false, "C07.session-unexpected-message")
					}
				}
				if i == c {
					vpAssert(nOK == 1, "C07.session-one-ok")
				}
				exp := len(want)
				if exp > buflen {
					exp = buflen
				}
				vpAssert(len(seen) >= exp && len(seen) <= len(want), "C07.session-every-open-matching-subscription-served")
			}
		case 3: // the client disconnects
			close(recvs[c])
			settle()
			alive[c] = false
			ghost[c] = nil
			vpAssert(len(done[c]) == 1, "C07.session-ends-when-its-input-closes")
		}
	}
	vpReach("end")
}
