package mocrelay

// Harness primitives. The symbolic engine (symgo) intercepts every vp*
// function by name; the bodies below are the NATIVE semantics used when a
// counterexample is replayed against the real build (go test -overlay) and
// when the engine is validated against native execution on concrete inputs.

import (
	"encoding/json"
	"fmt"
	"os"
	"runtime"
	"time"
	"unicode/utf8"
)

type vpReplayFile struct {
	Label   string            `json:"label"` // the assertion label a replay is confirming ("" for path validation)
	Harness string            `json:"harness"`
	Tier    int               `json:"tier"`
	Inputs  map[string]uint64 `json:"inputs"`
}

type vpAssertFailed struct{ Label string }
type vpAssumeFailed struct{}

var (
	vpIn      *vpReplayFile
	vpCounts  = map[string]int{}
	vpReached = map[string]bool{}
	vpObs     []string // observations recorded by vpNote (engine/native comparison)
)

func vpLoad() {
	if vpIn != nil {
		return
	}
	vpIn = &vpReplayFile{Inputs: map[string]uint64{}}
	if p := os.Getenv("VP_REPLAY"); p != "" {
		b, err := os.ReadFile(p)
		if err != nil {
			panic(err)
		}
		if err := json.Unmarshal(b, vpIn); err != nil {
			panic(err)
		}
	}
}

func vpReset() {
	vpCounts = map[string]int{}
	vpReached = map[string]bool{}
	vpObs = nil
}

func vpName(base string) string {
	k := vpCounts[base]
	vpCounts[base]++
	return fmt.Sprintf("%s#%d", base, k)
}

func vpGet(name string) uint64 {
	vpLoad()
	v, ok := vpIn.Inputs[name]
	if !ok {
		// inputs the solver left unconstrained are absent from a replay file: zero
		return 0
	}
	return v
}

func vpTier() int                 { vpLoad(); return vpIn.Tier }
func vpSymbolic() bool            { return false }
func vpBool(name string) bool     { return vpGet(vpName(name)) != 0 }
func vpInt64(name string) int64   { return int64(vpGet(vpName(name))) }
func vpInt(name string) int       { return int(int64(vpGet(vpName(name)))) }
func vpUint64(name string) uint64 { return vpGet(vpName(name)) }
func vpByte(name string) byte     { return byte(vpGet(vpName(name))) }
func vpChoice(name string, n int) int {
	v := int(vpGet(vpName(name)))
	if v < 0 || v >= n {
		panic(fmt.Sprintf("vpChoice %s: replay value %d out of range %d", name, v, n))
	}
	return v
}

func vpString(name string, n int) string {
	base := vpName(name)
	b := make([]byte, n)
	for i := range b {
		b[i] = byte(vpGet(fmt.Sprintf("%s.%d", base, i)))
	}
	return string(b)
}

func vpAssume(c bool) {
	if !c {
		panic(vpAssumeFailed{})
	}
}

func vpAssert(c bool, label string) {
	if !c {
		panic(vpAssertFailed{label})
	}
}

// vpAssertKF is vpAssert with a known-finding region: natively a plain assertion.
func vpAssertKF(c bool, label string, kf string, inRegion bool) {
	if !c {
		panic(vpAssertFailed{label})
	}
}

func vpReach(label string) { vpReached[label] = true }

func vpCatchPanic(f func()) (panicked bool) {
	defer func() {
		if r := recover(); r != nil {
			switch r.(type) {
			case vpAssertFailed, vpAssumeFailed:
				panic(r)
			}
			panicked = true
		}
	}()
	f()
	return false
}

func vpAnd(a, b bool) bool     { return a && b }
func vpOr(a, b bool) bool      { return a || b }
func vpImplies(a, b bool) bool { return !a || b }
func vpIff(a, b bool) bool     { return a == b }
func vpIteInt64(c bool, a, b int64) int64 {
	if c {
		return a
	}
	return b
}
func vpIteBool(c bool, a, b bool) bool {
	if c {
		return a
	}
	return b
}
func vpIteStr(c bool, a, b string) string {
	if c {
		return a
	}
	return b
}
func vpStrEq(a, b string) bool { return a == b }

func vpAllBytesIn(s string, set string) bool {
	for i := 0; i < len(s); i++ {
		ok := false
		for j := 0; j < len(set); j++ {
			if s[i] == set[j] {
				ok = true
			}
		}
		if !ok {
			return false
		}
	}
	return true
}

func vpValidUTF8(s string) bool { return utf8.ValidString(s) }

// Stubbing, opaque packages and the lockset monitor exist only in the engine.
func vpStub(name string, f any)                         {}
func vpOpaque(pkg string)                               {}
func vpReal(name string)                                {}
func vpConcretize(x int64) int64                        { return x }
func vpDecide(c bool) bool                              { return c }
func vpGuardedBy(root any, mu any, immutable ...string) {}
func vpUnguard()                                        {}
func vpLockEvents(reset bool) int                       { return 0 }

// vpOneCriticalSection: since the last call / vpLockEvents(true) the guarded mutex
// was acquired and released exactly once (engine); natively there is no monitor.
func vpOneCriticalSection() bool        { return true }
func vpSelectFirst(on bool)             {}
func vpBlockedIsViolation(label string) {}
func vpUnsupported(msg string)          { panic("environment: " + msg) }
func vpPreempt(k int)                   {}
func vpYield()                          { runtime.Gosched(); time.Sleep(2 * time.Millisecond) }
func vpIsOpaqueStr(s string) bool       { return false }
func vpNote(s string)                   { vpObs = append(vpObs, s) }
func vpNoteInt64(tag string, v int64)   { vpObs = append(vpObs, fmt.Sprintf("%s=%d", tag, v)) }
func vpNoteBool(tag string, v bool)     { vpObs = append(vpObs, fmt.Sprintf("%s=%v", tag, v)) }
func vpNoteStr(tag string, v string)    { vpObs = append(vpObs, fmt.Sprintf("%s=%x", tag, v)) }
func vpSameObject(a, b any) bool        { return a == b }

// vpClock: the k-th free duration returned by the engine's clock stub (engine only).
func vpClock(name string, k int) int64 { return 0 }

// vpJSONAppendString: engine only (runs encoding/json's unexported escaping loop).
func vpJSONAppendString(dst []byte, s string, escapeHTML bool) []byte { panic("engine only") }

// vpLiveGoroutines: goroutines started by the harness/the code under test that have not
// finished (engine: exact; natively: the runtime's count, which includes the test runner's).
func vpLiveGoroutines() int { return runtime.NumGoroutine() }

// vpReplayLabel: natively, the label of the counterexample being confirmed (so that a
// hand-written native scenario reports under that label), else the default.
func vpReplayLabel(def string) string {
	vpLoad()
	if vpIn.Label != "" {
		return vpIn.Label
	}
	return def
}

var vpHashMemo = map[string]uint64{}

func vpHash64(tag string, parts ...string) uint64 {
	k := tag
	for _, p := range parts {
		k += fmt.Sprintf("|%d:%s", len(p), p)
	}
	if v, ok := vpHashMemo[k]; ok {
		return v
	}
	v := vpGet(vpName("hash." + tag))
	vpHashMemo[k] = v
	return v
}

// vpHarnesses is the registry used by the native replay test.
var vpHarnesses = map[string]func(){}
