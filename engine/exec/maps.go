package exec

import (
	"fmt"
	"go/types"
	"unicode/utf8"

	"golang.org/x/tools/go/ssa"
	"symgo/smt"
)

// keysEqual decides (forking if needed) whether two map keys are equal.
func (e *Exec) keysEqual(t types.Type, a, b Value) bool {
	return e.decide(e.equals(t, a, b))
}

func (e *Exec) mapFind(m *Map, k Value) *MapEnt {
	for _, ent := range m.Ents {
		if ent.Deleted {
			continue
		}
		if e.keysEqual(m.KeyT, ent.K, k) {
			return ent
		}
	}
	return nil
}

func (e *Exec) checkKeyHashable(m *Map, k Value) {
	if itf, ok := k.(Iface); ok && itf.T != nil && !types.Comparable(itf.T) {
		e.runtimePanic(fmt.Sprintf("hash of unhashable type %v", itf.T))
	}
}

func (e *Exec) mapInsert(m *Map, k, v Value) {
	e.monitorMap(m, true)
	e.checkKeyHashable(m, k)
	if ent := e.mapFind(m, k); ent != nil {
		ent.V = copyVal(v)
		return
	}
	m.Ents = append(m.Ents, &MapEnt{K: copyVal(k), V: copyVal(v)})
	m.N++
}

func (e *Exec) mapDelete(m *Map, k Value) {
	e.monitorMap(m, true)
	if ent := e.mapFind(m, k); ent != nil {
		ent.Deleted = true
		m.N--
		// compact occasionally (iterators hold their own snapshot index)
	}
}

// lookup implements m[k] and s[i] on strings (ssa.Lookup).
func (e *Exec) lookup(instr *ssa.Lookup, x, idx Value) Value {
	switch x := x.(type) {
	case *Map:
		elemT := instr.X.Type().Underlying().(*types.Map).Elem()
		var v Value
		ok := false
		if x != nil {
			e.monitorMap(x, false)
			e.checkKeyHashable(x, idx)
			if r, folded := e.mapLookupFold(x, idx, elemT, instr.CommaOk); folded {
				return r
			}
			if ent := e.mapFind(x, idx); ent != nil {
				v, ok = copyVal(ent.V), true
			}
		}
		if !ok {
			v = e.zero(elemT)
		}
		if instr.CommaOk {
			return Tuple{v, e.c.Bool(ok)}
		}
		return v
	case Str:
		it := instr.Index.Type()
		vals := make([]Value, len(x.B))
		for i, b := range x.B {
			vals[i] = b
		}
		return e.indexRead(vals, idx.(*smt.Term), it, types.Typ[types.Uint8])
	}
	panic(fmt.Sprintf("unexpected x type in Lookup: %T", x))
}

// mapLookupFold turns a lookup in a map with scalar values and scalar/string
// keys into one ITE term (no fork) when the key is not syntactically decided.
func (e *Exec) mapLookupFold(m *Map, k Value, elemT types.Type, commaOk bool) (Value, bool) {
	if !e.foldMaps {
		return nil, false
	}
	switch k.(type) {
	case *smt.Term, Str:
	default:
		return nil, false
	}
	if _, isB := elemT.Underlying().(*types.Basic); !isB || isString(elemT) || isFloat(elemT) {
		return nil, false
	}
	val := e.zero(elemT).(*smt.Term)
	found := e.c.False
	// later entries cannot shadow earlier ones: keys are pairwise distinct on this path
	symbolic := false
	for i := len(m.Ents) - 1; i >= 0; i-- {
		ent := m.Ents[i]
		if ent.Deleted {
			continue
		}
		eq := e.equals(m.KeyT, ent.K, k)
		if b, ok := eq.ConstBool(); ok {
			if b {
				val = ent.V.(*smt.Term)
				found = e.c.True
			}
			continue
		}
		if kv, ok := e.known[eq]; ok {
			if kv {
				val = ent.V.(*smt.Term)
				found = e.c.True
			}
			continue
		}
		symbolic = true
		val = e.c.Ite(eq, ent.V.(*smt.Term), val)
		found = e.c.Or(eq, found)
	}
	_ = symbolic
	if commaOk {
		return Tuple{val, found}, true
	}
	return val, true
}

// ---------------------------------------------------------------------------
// Iteration

type iter interface {
	next(e *Exec) Tuple
}

type mapIter struct {
	m   *Map
	i   int
	rev bool
	n0  int
}

func (it *mapIter) next(e *Exec) Tuple {
	if it.m != nil {
		e.monitorMap(it.m, false)
		for it.i < len(it.m.Ents) {
			idx := it.i
			if it.rev {
				// reverse order over the entries present when iteration started
				idx = it.n0 - 1 - it.i
				if idx < 0 {
					break
				}
			}
			it.i++
			ent := it.m.Ents[idx]
			if ent.Deleted {
				continue
			}
			return Tuple{e.c.True, copyVal(ent.K), copyVal(ent.V)}
		}
	}
	return Tuple{e.c.False, e.zeroOr(it.m, true), e.zeroOr(it.m, false)}
}

func (e *Exec) zeroOr(m *Map, key bool) Value {
	if m == nil {
		return nil
	}
	if key {
		return e.zero(m.KeyT)
	}
	return e.zero(m.ElemT)
}

type strIter struct {
	s   Str
	pos int
}

func (it *strIter) next(e *Exec) Tuple {
	if it.pos >= len(it.s.B) {
		return Tuple{e.c.False, e.mkInt(0), e.c.BV(0, 32)}
	}
	start := it.pos
	r, size := e.decodeRune(it.s.B[it.pos:])
	it.pos += size
	return Tuple{e.c.True, e.mkInt(int64(start)), r}
}

func (e *Exec) rangeIter(x Value, t types.Type) iter {
	switch x := x.(type) {
	case *Map:
		it := &mapIter{m: x, rev: e.reverseMaps}
		if x != nil {
			it.n0 = len(x.Ents)
		}
		return it
	case Str:
		if x.OpaqueID != 0 {
			e.unsupported("range over opaque string")
		}
		return &strIter{s: x}
	}
	panic(fmt.Sprintf("cannot range over %T", x))
}

// decodeRune is utf8.DecodeRuneInString on possibly symbolic bytes: the width
// class is decided (forking), the rune value is a 32-bit term.
func (e *Exec) decodeRune(b []*smt.Term) (*smt.Term, int) {
	// concrete fast path
	var buf [4]byte
	n := 0
	conc := true
	for n < 4 && n < len(b) {
		v, ok := b[n].ConstU()
		if !ok {
			conc = false
			break
		}
		buf[n] = byte(v)
		n++
	}
	if conc {
		r, size := utf8.DecodeRune(buf[:n])
		return e.c.BV(uint64(int64(r)), 32), size
	}
	c := e.c
	bad := c.BV(uint64(utf8.RuneError), 32)
	b0 := b[0]
	u := func(v uint64) *smt.Term { return c.BV(v, 8) }
	lt := func(x *smt.Term, v uint64) *smt.Term { return c.Cmp(smt.KUlt, x, u(v)) }
	inr := func(x *smt.Term, lo, hi uint64) *smt.Term {
		return c.And(c.Cmp(smt.KUle, u(lo), x), c.Cmp(smt.KUle, x, u(hi)))
	}
	z32 := func(x *smt.Term) *smt.Term { return c.Zext(x, 32) }
	shl := func(x *smt.Term, k uint64) *smt.Term { return c.Bin(smt.KShl, x, c.BV(k, 32)) }
	and8 := func(x *smt.Term, m uint64) *smt.Term { return c.Bin(smt.KBAnd, x, u(m)) }
	or := func(xs ...*smt.Term) *smt.Term {
		r := xs[0]
		for _, x := range xs[1:] {
			r = c.Bin(smt.KBOr, r, x)
		}
		return r
	}
	if e.decide(lt(b0, 0x80)) {
		return z32(b0), 1
	}
	// b0 in [0x80,0xC1] or [0xF5,0xFF]: invalid
	if e.decide(c.Or(lt(b0, 0xC2), c.Not(lt(b0, 0xF5)))) {
		return bad, 1
	}
	if e.decide(lt(b0, 0xE0)) { // two bytes
		if len(b) < 2 || !e.decide(inr(b[1], 0x80, 0xBF)) {
			return bad, 1
		}
		return or(shl(z32(and8(b0, 0x1F)), 6), z32(and8(b[1], 0x3F))), 2
	}
	if e.decide(lt(b0, 0xF0)) { // three bytes
		if len(b) < 2 {
			return bad, 1
		}
		lo := c.Ite(c.Eq(b0, u(0xE0)), u(0xA0), u(0x80))
		hi := c.Ite(c.Eq(b0, u(0xED)), u(0x9F), u(0xBF))
		ok1 := c.And(c.Cmp(smt.KUle, lo, b[1]), c.Cmp(smt.KUle, b[1], hi))
		if !e.decide(ok1) {
			return bad, 1
		}
		if len(b) < 3 || !e.decide(inr(b[2], 0x80, 0xBF)) {
			return bad, 1
		}
		return or(shl(z32(and8(b0, 0x0F)), 12), shl(z32(and8(b[1], 0x3F)), 6), z32(and8(b[2], 0x3F))), 3
	}
	// four bytes
	if len(b) < 2 {
		return bad, 1
	}
	lo := c.Ite(c.Eq(b0, u(0xF0)), u(0x90), u(0x80))
	hi := c.Ite(c.Eq(b0, u(0xF4)), u(0x8F), u(0xBF))
	ok1 := c.And(c.Cmp(smt.KUle, lo, b[1]), c.Cmp(smt.KUle, b[1], hi))
	if !e.decide(ok1) {
		return bad, 1
	}
	if len(b) < 3 || !e.decide(inr(b[2], 0x80, 0xBF)) {
		return bad, 1
	}
	if len(b) < 4 || !e.decide(inr(b[3], 0x80, 0xBF)) {
		return bad, 1
	}
	return or(shl(z32(and8(b0, 0x07)), 18), shl(z32(and8(b[1], 0x3F)), 12), shl(z32(and8(b[2], 0x3F)), 6), z32(and8(b[3], 0x3F))), 4
}
