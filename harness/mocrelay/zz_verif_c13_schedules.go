package mocrelay

import (
	"context"
)

func init() {
	vpHarnesses["vpH_C13_schedules"] = vpH_C13_schedules
}

// C13 clause 1 over schedules (bounded, small family): a router session, or a merged
// cache+router session, receives one message and is cut (cancel / inbound close) with a
// peer that drains or never reads. From the moment serving starts until it has returned
// the scheduler is part of the path: every schedule with at most one (thorough, router
// session: three) preemptions at a mutex/atomic/channel operation is explored. Serving must return and
// none of the goroutines the session started may be left, and the router's registry must
// be empty once they are gone.
func vpH_C13_schedules() {
	var h Handler
	budget := 1
	router := NewRouterHandler(2)
	if vpChoice("handler", 2) == 0 {
		h = router
		if vpTier() > 0 {
			budget = 3 // (the merged session with two preemptions exceeds 3 million schedules)
		}
	} else {
		h = NewMergeHandler(NewCacheHandler(4), router)
	}
	stalled := vpChoice("peer", 2) == 1
	var send chan ServerMsg
	if stalled {
		send = make(chan ServerMsg) // nobody ever reads
	} else {
		send = make(chan ServerMsg, 64)
	}
	recv := make(chan ClientMsg, 4)
	if vpChoice("type", 2) == 0 {
		recv <- &ClientReqMsg{SubscriptionID: "s0", ReqFilters: []*ReqFilter{{}}}
	} else {
		recv <- &ClientEventMsg{Event: &Event{ID: "e0", Pubkey: "A", Kind: 1, CreatedAt: 1, Tags: []Tag{}}}
	}
	ctx, cancel := context.WithCancel(context.Background())
	done := make(chan error, 1)
	before := vpLiveGoroutines()
	go func() { done <- h.ServeNostr(ctx, send, recv) }()
	vpPreempt(budget)
	for i := vpChoice("progress", 2); i > 0; i-- {
		vpYield()
	}
	if vpChoice("cut", 2) == 0 {
		cancel()
	} else {
		close(recv)
		if stalled {
			cancel() // see vpH_C13_termination
		}
	}
	for i := 0; i < 40 && len(done) == 0; i++ {
		vpYield()
	}
	vpPreempt(0)
	vpAssert(len(done) == 1, "C13.schedules-serving-returns-after-the-cut")
	for i := 0; i < 40 && vpLiveGoroutines() > before; i++ {
		vpYield()
	}
	vpAssert(vpLiveGoroutines() == before, "C13.schedules-no-goroutine-left-behind")
	// nothing of the session remains in the router's registry once all its goroutines are gone
	left := 0
	router.subs.subs.Loop(func(string, *safeMap[string, *subscriber]) { left++ })
	vpAssert(left == 0, "C13.schedules-registry-empty-after-session")
	cancel()
	vpReach("end")
}
