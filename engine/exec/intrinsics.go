package exec

import (
	"fmt"
	"go/types"
	"math"
	"strconv"
	"strings"

	"golang.org/x/tools/go/ssa"
	"symgo/smt"
)

var intrinsics map[string]intrinsic

func init() {
	intrinsics = map[string]intrinsic{
		// --- sync ---------------------------------------------------------
		"(*sync.Mutex).Lock":   func(e *Exec, _ *frame, _ *ssa.Function, a []Value) Value { e.lock(a[0].(*Value), true); return nil },
		"(*sync.Mutex).Unlock": func(e *Exec, _ *frame, _ *ssa.Function, a []Value) Value { e.unlock(a[0].(*Value), true); return nil },
		"(*sync.Mutex).TryLock": func(e *Exec, _ *frame, _ *ssa.Function, a []Value) Value {
			return e.c.Bool(e.tryLock(a[0].(*Value), true))
		},
		"(*sync.RWMutex).Lock":    func(e *Exec, _ *frame, _ *ssa.Function, a []Value) Value { e.lock(a[0].(*Value), true); return nil },
		"(*sync.RWMutex).Unlock":  func(e *Exec, _ *frame, _ *ssa.Function, a []Value) Value { e.unlock(a[0].(*Value), true); return nil },
		"(*sync.RWMutex).RLock":   func(e *Exec, _ *frame, _ *ssa.Function, a []Value) Value { e.lock(a[0].(*Value), false); return nil },
		"(*sync.RWMutex).RUnlock": func(e *Exec, _ *frame, _ *ssa.Function, a []Value) Value { e.unlock(a[0].(*Value), false); return nil },
		"(*sync.Once).Do":         syncOnceDo,
		"(*sync.WaitGroup).Add":   wgAdd,
		"(*sync.WaitGroup).Done": func(e *Exec, c *frame, f *ssa.Function, a []Value) Value {
			return wgAdd(e, c, f, []Value{a[0], e.c.BV(^uint64(0), 64)})
		},
		"(*sync.WaitGroup).Wait": wgWait,
		"(*sync.Pool).Get":       func(e *Exec, _ *frame, _ *ssa.Function, a []Value) Value { return poolGet(e, a[0].(*Value)) },
		"(*sync.Pool).Put": func(e *Exec, _ *frame, _ *ssa.Function, a []Value) Value {
			k := poolKey{a[0].(*Value)}
			st, _ := e.ext[k].([]Value)
			e.ext[k] = append(st, a[1])
			return nil
		},

		// --- runtime / misc -----------------------------------------------
		"runtime.Gosched":       func(e *Exec, _ *frame, _ *ssa.Function, a []Value) Value { e.yield(); return nil },
		"runtime.KeepAlive":     func(e *Exec, _ *frame, _ *ssa.Function, a []Value) Value { return nil },
		"runtime.SetFinalizer":  func(e *Exec, _ *frame, _ *ssa.Function, a []Value) Value { return nil },
		"time.Sleep":            func(e *Exec, _ *frame, _ *ssa.Function, a []Value) Value { e.yield(); return nil },
		"internal/race.Acquire": nop, "internal/race.Release": nop, "internal/race.ReleaseMerge": nop,
		"internal/race.Enable": nop, "internal/race.Disable": nop, "internal/race.Read": nop, "internal/race.Write": nop,
		"internal/race.ReadRange": nop, "internal/race.WriteRange": nop,
		"internal/godebug.(*Setting).Value":         func(e *Exec, _ *frame, _ *ssa.Function, a []Value) Value { return Str{} },
		"internal/godebug.(*Setting).IncNonDefault": nop,

		// --- bytealg / strings / bytes ------------------------------------
		"internal/bytealg.IndexByteString": func(e *Exec, _ *frame, _ *ssa.Function, a []Value) Value {
			return e.mkInt(int64(e.indexByte(a[0].(Str).B, a[1].(*smt.Term))))
		},
		"internal/bytealg.IndexByte": func(e *Exec, _ *frame, _ *ssa.Function, a []Value) Value {
			return e.mkInt(int64(e.indexByte(sliceBytes(a[0]), a[1].(*smt.Term))))
		},
		"internal/bytealg.CountString": func(e *Exec, _ *frame, _ *ssa.Function, a []Value) Value {
			return e.mkInt(int64(e.countByte(a[0].(Str).B, a[1].(*smt.Term))))
		},
		"internal/bytealg.Count": func(e *Exec, _ *frame, _ *ssa.Function, a []Value) Value {
			return e.mkInt(int64(e.countByte(sliceBytes(a[0]), a[1].(*smt.Term))))
		},
		"internal/bytealg.Equal": func(e *Exec, _ *frame, _ *ssa.Function, a []Value) Value {
			return e.strEq(Str{B: sliceBytes(a[0])}, Str{B: sliceBytes(a[1])})
		},
		"bytes.Equal": func(e *Exec, _ *frame, _ *ssa.Function, a []Value) Value {
			return e.strEq(Str{B: sliceBytes(a[0])}, Str{B: sliceBytes(a[1])})
		},
		"internal/bytealg.Compare": func(e *Exec, _ *frame, _ *ssa.Function, a []Value) Value {
			return e.compareBytes(sliceBytes(a[0]), sliceBytes(a[1]))
		},
		"internal/bytealg.CompareString": func(e *Exec, _ *frame, _ *ssa.Function, a []Value) Value {
			return e.compareBytes(a[0].(Str).B, a[1].(Str).B)
		},
		"internal/bytealg.IndexString": func(e *Exec, _ *frame, _ *ssa.Function, a []Value) Value {
			return e.mkInt(int64(e.indexSub(a[0].(Str).B, a[1].(Str).B)))
		},
		"internal/bytealg.Index": func(e *Exec, _ *frame, _ *ssa.Function, a []Value) Value {
			return e.mkInt(int64(e.indexSub(sliceBytes(a[0]), sliceBytes(a[1]))))
		},
		"internal/bytealg.MakeNoZero": func(e *Exec, _ *frame, _ *ssa.Function, a []Value) Value {
			n := e.concreteInt(a[0], "MakeNoZero")
			s := make([]Value, n)
			for i := range s {
				s[i] = e.byteConst[0]
			}
			return Slice{A: s}
		},
		// ASCII case mapping as one ite per byte (the real loops fork per character);
		// strings with a possibly non-ASCII byte fall back to the real code
		"strings.ToLower": func(e *Exec, c *frame, fn *ssa.Function, a []Value) Value { return e.asciiCase(c, fn, a, true) },
		"strings.ToUpper": func(e *Exec, c *frame, fn *ssa.Function, a []Value) Value { return e.asciiCase(c, fn, a, false) },
		"strings.EqualFold": func(e *Exec, c *frame, fn *ssa.Function, a []Value) Value {
			x, y := a[0].(Str), a[1].(Str)
			if x.OpaqueID == 0 && y.OpaqueID == 0 && e.decide(e.c.And(e.allASCII(x), e.allASCII(y))) {
				if len(x.B) != len(y.B) {
					return e.c.False
				}
				r := e.c.True
				for i := range x.B {
					r = e.c.And(r, e.c.Eq(e.lowerByte(x.B[i]), e.lowerByte(y.B[i])))
				}
				return r
			}
			return e.callBody(c, fn, a)
		},
		"internal/stringslite.Clone": func(e *Exec, _ *frame, _ *ssa.Function, a []Value) Value { return a[0] },
		"strings.Clone":              func(e *Exec, _ *frame, _ *ssa.Function, a []Value) Value { return a[0] },
		"strings.Index": func(e *Exec, _ *frame, _ *ssa.Function, a []Value) Value {
			return e.mkInt(int64(e.indexSub(a[0].(Str).B, a[1].(Str).B)))
		},
		"(*strings.Builder).WriteString": func(e *Exec, _ *frame, _ *ssa.Function, a []Value) Value {
			s := a[1].(Str)
			e.builderAppend(a[0].(*Value), s)
			return Tuple{e.mkInt(int64(len(s.B))), Iface{}}
		},
		"(*strings.Builder).Write": func(e *Exec, _ *frame, _ *ssa.Function, a []Value) Value {
			b := sliceBytes(a[1])
			e.builderAppend(a[0].(*Value), Str{B: b})
			return Tuple{e.mkInt(int64(len(b))), Iface{}}
		},
		"(*strings.Builder).WriteByte": func(e *Exec, _ *frame, _ *ssa.Function, a []Value) Value {
			e.builderAppend(a[0].(*Value), Str{B: []*smt.Term{a[1].(*smt.Term)}})
			return Iface{}
		},
		"(*strings.Builder).WriteRune": func(e *Exec, _ *frame, _ *ssa.Function, a []Value) Value {
			r, ok := a[1].(*smt.Term).ConstS()
			if !ok {
				e.unsupported("Builder.WriteRune with symbolic rune")
			}
			s := e.mkStr(string(rune(r)))
			e.builderAppend(a[0].(*Value), s)
			return Tuple{e.mkInt(int64(len(s.B))), Iface{}}
		},
		"(*strings.Builder).String": func(e *Exec, _ *frame, _ *ssa.Function, a []Value) Value {
			return e.builderGet(a[0].(*Value))
		},
		"(*strings.Builder).Len": func(e *Exec, _ *frame, _ *ssa.Function, a []Value) Value {
			s := e.builderGet(a[0].(*Value))
			if s.OpaqueID != 0 {
				e.unsupported("Builder.Len of opaque content")
			}
			return e.mkInt(int64(len(s.B)))
		},
		"(*strings.Builder).Grow":  nop,
		"(*strings.Builder).Reset": func(e *Exec, _ *frame, _ *ssa.Function, a []Value) Value { delete(e.ext, a[0].(*Value)); return nil },

		// --- fmt / errors ---------------------------------------------------
		"fmt.Sprintf": func(e *Exec, _ *frame, _ *ssa.Function, a []Value) Value {
			s, _ := e.sprintf(a[0].(Str), a[1].(Slice).A)
			return s
		},
		"fmt.Errorf":   fmtErrorf,
		"fmt.Sprint":   func(e *Exec, _ *frame, _ *ssa.Function, a []Value) Value { return e.sprint(a[0].(Slice).A, false) },
		"fmt.Sprintln": func(e *Exec, _ *frame, _ *ssa.Function, a []Value) Value { return e.sprint(a[0].(Slice).A, true) },
		"errors.Is": func(e *Exec, _ *frame, _ *ssa.Function, a []Value) Value {
			return e.c.Bool(e.errorsIs(a[0].(Iface), a[1].(Iface), 0))
		},
		"errors.As": errorsAs,

		// --- reflect (only the nil test the repo uses) ---------------------
		"reflect.ValueOf": func(e *Exec, _ *frame, _ *ssa.Function, a []Value) Value {
			return &Opaque{Kind: "reflect.Value", Data: a[0].(Iface)}
		},
		"(reflect.Value).IsNil": func(e *Exec, _ *frame, _ *ssa.Function, a []Value) Value {
			itf := a[0].(*Opaque).Data.(Iface)
			if itf.T == nil {
				e.runtimePanic("reflect: call of reflect.Value.IsNil on zero Value")
			}
			switch v := itf.V.(type) {
			case *Value:
				return e.c.Bool(v == nil)
			case *Map:
				return e.c.Bool(v == nil)
			case *Chan:
				return e.c.Bool(v == nil)
			case Slice:
				return e.c.Bool(v.A == nil)
			case *ssa.Function:
				return e.c.Bool(v == nil)
			case *Closure:
				return e.c.False
			case Iface:
				return e.c.Bool(v.T == nil)
			case *Opaque:
				return e.c.False
			}
			e.runtimePanic("reflect: call of reflect.Value.IsNil on non-nillable Value")
			return nil
		},

		"internal/reflectlite.TypeOf": func(e *Exec, _ *frame, fn *ssa.Function, a []Value) Value {
			itf := a[0].(Iface)
			if itf.T == nil {
				return Iface{}
			}
			t := itf.T
			h := map[string]Value{
				"Comparable": &Opaque{Kind: "func", Data: func(e *Exec, _ []Value) Value { return e.c.Bool(types.Comparable(t)) }},
				"String":     &Opaque{Kind: "func", Data: func(e *Exec, _ []Value) Value { return e.mkStr(t.String()) }},
			}
			return Iface{T: fn.Signature.Results().At(0).Type(), V: &Opaque{Kind: "rtype", Name: t.String(), Data: h}}
		},

		// --- regexp: compiled patterns are engine objects (matcher: regexp.go) --
		"regexp.MustCompile": func(e *Exec, _ *frame, _ *ssa.Function, a []Value) Value {
			return &Opaque{Kind: "regexp", Name: argStr(e, a[0])}
		},
		"(*regexp.Regexp).FindSubmatch": regexpFindSubmatch,

		// --- time: the clock is an environment stub ---------------------------
		// time.Unix(sec, nsec) keeps (sec, nsec); Since/Until return a FREE
		// duration per call (named clock.since#k / clock.until#k): the relation
		// between an event's created_at and "now" is deliberately not modelled.
		"time.Unix": func(e *Exec, _ *frame, _ *ssa.Function, a []Value) Value {
			return Struct{a[1].(*smt.Term), a[0].(*smt.Term), (*Value)(nil)}
		},
		"time.Now": func(e *Exec, _ *frame, _ *ssa.Function, a []Value) Value {
			return Struct{e.c.BV(0, 64), e.freshInt("clock.now", 64), (*Value)(nil)}
		},
		"time.Since": func(e *Exec, _ *frame, _ *ssa.Function, a []Value) Value { return e.freshInt("clock.since", 64) },
		"time.Until": func(e *Exec, _ *frame, _ *ssa.Function, a []Value) Value { return e.freshInt("clock.until", 64) },

		"math.Trunc": mathRound(math.Trunc), "math.Floor": mathRound(math.Floor), "math.Ceil": mathRound(math.Ceil),
		"math.IsNaN": func(e *Exec, _ *frame, _ *ssa.Function, a []Value) Value {
			if f, ok := a[0].(float64); ok {
				return e.c.Bool(math.IsNaN(f))
			}
			return e.c.False
		},
		"math.IsInf": func(e *Exec, _ *frame, _ *ssa.Function, a []Value) Value {
			if f, ok := a[0].(float64); ok {
				s, _ := a[1].(*smt.Term).ConstS()
				return e.c.Bool(math.IsInf(f, int(s)))
			}
			return e.c.False
		},

		// --- misc library ---------------------------------------------------
		"github.com/google/uuid.NewString": func(e *Exec, _ *frame, _ *ssa.Function, a []Value) Value {
			e.uniq++
			return e.mkStr(fmt.Sprintf("uuid-%04d", e.uniq))
		},
		"unicode/utf8.DecodeRuneInString": func(e *Exec, _ *frame, _ *ssa.Function, a []Value) Value {
			s := a[0].(Str)
			if len(s.B) == 0 {
				return Tuple{e.c.BV(0xFFFD, 32), e.mkInt(0)}
			}
			r, n := e.decodeRune(s.B)
			return Tuple{r, e.mkInt(int64(n))}
		},
		"unicode/utf8.DecodeRune": func(e *Exec, _ *frame, _ *ssa.Function, a []Value) Value {
			b := sliceBytes(a[0])
			if len(b) == 0 {
				return Tuple{e.c.BV(0xFFFD, 32), e.mkInt(0)}
			}
			r, n := e.decodeRune(b)
			return Tuple{r, e.mkInt(int64(n))}
		},
		"unicode/utf8.ValidString": func(e *Exec, c *frame, f *ssa.Function, a []Value) Value {
			return vpValidUTF8(e, c, f, a)
		},
		"unicode/utf8.Valid": func(e *Exec, c *frame, f *ssa.Function, a []Value) Value {
			return vpValidUTF8(e, c, f, []Value{Str{B: sliceBytes(a[0])}})
		},
		"strconv.Itoa": func(e *Exec, _ *frame, _ *ssa.Function, a []Value) Value {
			if c, ok := a[0].(*smt.Term).ConstS(); ok {
				return e.mkStr(strconv.FormatInt(c, 10))
			}
			return e.newOpaqueStr()
		},
		"strconv.Quote": func(e *Exec, _ *frame, _ *ssa.Function, a []Value) Value {
			if c, ok := a[0].(Str).Concrete(); ok {
				return e.mkStr(strconv.Quote(c))
			}
			return e.newOpaqueStr()
		},
	}
	registerAtomics()
}

func nop(e *Exec, _ *frame, _ *ssa.Function, a []Value) Value { return nil }

func sliceBytes(v Value) []*smt.Term {
	s := v.(Slice)
	b := make([]*smt.Term, len(s.A))
	for i, x := range s.A {
		b[i] = x.(*smt.Term)
	}
	return b
}

// ---------------------------------------------------------------------------
// locks

func (e *Exec) lockOf(p *Value) *lockState {
	if p == nil {
		e.runtimePanic("nil mutex")
	}
	ls := e.locks[p]
	if ls == nil {
		ls = &lockState{}
		e.locks[p] = ls
	}
	return ls
}

func (e *Exec) tryLock(p *Value, write bool) bool {
	ls := e.lockOf(p)
	if write {
		if ls.writer || ls.readers > 0 {
			return false
		}
		ls.writer = true
		ls.holder = e.cur.id
	} else {
		if ls.writer {
			return false
		}
		ls.readers++
	}
	e.lockEvent(p, write, true)
	return true
}

func (e *Exec) lock(p *Value, write bool) {
	e.preemptPoint()
	ls := e.lockOf(p)
	if write && (ls.writer || ls.readers > 0) || !write && ls.writer {
		e.block(func() bool {
			if write {
				return !ls.writer && ls.readers == 0
			}
			return !ls.writer
		}, "mutex lock")
	}
	if !e.tryLock(p, write) {
		panic(pathEnd{endEngineBug, "lock: inconsistent state"})
	}
}

func (e *Exec) unlock(p *Value, write bool) {
	ls := e.lockOf(p)
	if write {
		if !ls.writer {
			panic(targetPanic{msg: "fatal error: sync: unlock of unlocked mutex", v: Iface{T: types.Typ[types.String], V: e.mkStr("sync: unlock of unlocked mutex")}})
		}
		ls.writer = false
	} else {
		if ls.readers == 0 {
			panic(targetPanic{msg: "fatal error: sync: RUnlock of unlocked RWMutex", v: Iface{T: types.Typ[types.String], V: e.mkStr("sync: RUnlock of unlocked RWMutex")}})
		}
		ls.readers--
	}
	e.lockEvent(p, write, false)
	e.preemptPoint()
}

func syncOnceDo(e *Exec, caller *frame, _ *ssa.Function, a []Value) Value {
	p := a[0].(*Value)
	key := onceKey{p}
	if e.ext[key] != nil {
		return nil
	}
	e.ext[key] = true
	e.call(caller, 0, a[1], nil)
	return nil
}

type onceKey struct{ p *Value }
type wgKey struct{ p *Value }

func wgAdd(e *Exec, _ *frame, _ *ssa.Function, a []Value) Value {
	k := wgKey{a[0].(*Value)}
	n, _ := e.ext[k].(int64)
	d, ok := a[1].(*smt.Term).ConstS()
	if !ok {
		e.unsupported("WaitGroup.Add with symbolic delta")
	}
	n += d
	if n < 0 {
		e.runtimePanic("sync: negative WaitGroup counter")
	}
	e.ext[k] = n
	return nil
}

func wgWait(e *Exec, _ *frame, _ *ssa.Function, a []Value) Value {
	k := wgKey{a[0].(*Value)}
	e.block(func() bool { n, _ := e.ext[k].(int64); return n == 0 }, "WaitGroup.Wait")
	return nil
}

type poolKey struct{ p *Value }

func poolGet(e *Exec, p *Value) Value {
	// sync.Pool model: the most recently Put object is handed out again (what the
	// runtime does on one P; the behaviour that exposes stale-state bugs); empty: New
	k := poolKey{p}
	if items, _ := e.ext[k].([]Value); len(items) > 0 {
		v := items[len(items)-1]
		e.ext[k] = items[:len(items)-1]
		return v
	}
	st := (*p).(Struct)
	newf := st[len(st)-1]
	if f, ok := newf.(*ssa.Function); ok && f == nil {
		return Iface{}
	}
	return e.callValue(newf)
}

// ---------------------------------------------------------------------------
// byte searching on symbolic bytes (each comparison is decided: case split)

func (e *Exec) indexByte(s []*smt.Term, c *smt.Term) int {
	for i, b := range s {
		if e.decide(e.c.Eq(b, c)) {
			return i
		}
	}
	return -1
}

func (e *Exec) countByte(s []*smt.Term, c *smt.Term) int {
	n := 0
	for _, b := range s {
		if e.decide(e.c.Eq(b, c)) {
			n++
		}
	}
	return n
}

func (e *Exec) indexSub(s, sub []*smt.Term) int {
	if len(sub) == 0 {
		return 0
	}
	for i := 0; i+len(sub) <= len(s); i++ {
		if e.decide(e.strEq(Str{B: s[i : i+len(sub)]}, Str{B: sub})) {
			return i
		}
	}
	return -1
}

func (e *Exec) compareBytes(a, b []*smt.Term) Value {
	lt := e.strLess(Str{B: a}, Str{B: b}, false)
	eq := e.strEq(Str{B: a}, Str{B: b})
	return e.c.Ite(lt, e.c.BV(^uint64(0), 64), e.c.Ite(eq, e.mkInt(0), e.mkInt(1)))
}

// ---------------------------------------------------------------------------
// strings.Builder: content kept in a side table keyed by the builder's address

func (e *Exec) builderGet(p *Value) Str {
	if s, ok := e.ext[p]; ok {
		return s.(Str)
	}
	return Str{}
}

func (e *Exec) builderAppend(p *Value, s Str) {
	if p == nil {
		e.runtimePanic("nil *strings.Builder")
	}
	e.ext[p] = e.strConcat(e.builderGet(p), s)
}

// ---------------------------------------------------------------------------
// fmt

// errorText calls Error() on an error value.
func (e *Exec) errorText(itf Iface) Str {
	if itf.T == nil {
		return e.mkStr("<nil>")
	}
	if m := e.findMethod(itf.T, "Error"); m != nil {
		if s, ok := e.callValue(m, itf.V).(Str); ok {
			return s
		}
	}
	return e.newOpaqueStr()
}

func (e *Exec) formatValue(v Value, verb byte) Str {
	switch v := v.(type) {
	case Iface:
		if v.T == nil {
			return e.mkStr("<nil>")
		}
		if verb != 'd' {
			if m := e.findMethod(v.T, "Error"); m != nil && verb != 'T' {
				if p, isPtr := v.V.(*Value); !isPtr || p != nil {
					return e.errorText(v)
				}
			}
			if m := e.findMethod(v.T, "String"); m != nil && m.Signature.Params().Len() == 0 {
				if p, isPtr := v.V.(*Value); !isPtr || p != nil {
					if s, ok := e.callValue(m, v.V).(Str); ok {
						return s
					}
				}
			}
		}
		if verb == 'T' {
			return e.mkStr(v.T.String())
		}
		_, signed, isInt := intWidth(v.T)
		if isInt {
			t := v.V.(*smt.Term)
			if signed {
				if c, ok := t.ConstS(); ok {
					return e.mkStr(strconv.FormatInt(c, 10))
				}
			} else if c, ok := t.ConstU(); ok {
				return e.mkStr(strconv.FormatUint(c, 10))
			}
			return e.newOpaqueStr()
		}
		if isBool(v.T) {
			if b, ok := v.V.(*smt.Term).ConstBool(); ok {
				return e.mkStr(strconv.FormatBool(b))
			}
			return e.newOpaqueStr()
		}
		if isString(v.T) {
			s := v.V.(Str)
			if verb == 'q' {
				if c, ok := s.Concrete(); ok {
					return e.mkStr(strconv.Quote(c))
				}
				return e.newOpaqueStr()
			}
			return s
		}
		if sl, ok := v.V.(Slice); ok && verb == 's' {
			if eb, ok := v.T.Underlying().(*types.Slice); ok {
				if b, ok := eb.Elem().Underlying().(*types.Basic); ok && b.Kind() == types.Uint8 {
					return Str{B: sliceBytes(sl)}
				}
			}
		}
		return e.newOpaqueStr()
	}
	return e.newOpaqueStr()
}

// sprintf formats; the second result lists the operands of %w verbs.
func (e *Exec) sprintf(format Str, args []Value) (Str, []Iface) {
	f, ok := format.Concrete()
	if !ok {
		return e.newOpaqueStr(), nil
	}
	out := Str{}
	var wrapped []Iface
	ai := 0
	for i := 0; i < len(f); i++ {
		if f[i] != '%' {
			j := strings.IndexByte(f[i:], '%')
			if j < 0 {
				j = len(f) - i
			}
			out = e.strConcat(out, e.mkStr(f[i:i+j]))
			i += j - 1
			continue
		}
		i++
		if i >= len(f) {
			out = e.strConcat(out, e.mkStr("%!(NOVERB)"))
			break
		}
		// flags/width are rare in this code base: treat any as opaque
		for i < len(f) && strings.IndexByte("+-# 0123456789.", f[i]) >= 0 {
			i++
			out = e.strConcat(out, e.newOpaqueStr())
		}
		verb := f[i]
		if verb == '%' {
			out = e.strConcat(out, e.mkStr("%"))
			continue
		}
		if ai >= len(args) {
			out = e.strConcat(out, e.mkStr("%!"+string(verb)+"(MISSING)"))
			continue
		}
		arg := args[ai]
		ai++
		if verb == 'w' {
			if itf, ok := arg.(Iface); ok {
				wrapped = append(wrapped, itf)
			}
			verb = 'v'
		}
		out = e.strConcat(out, e.formatValue(arg, verb))
	}
	return out, wrapped
}

func (e *Exec) sprint(args []Value, ln bool) Str {
	out := Str{}
	for i, a := range args {
		if i > 0 && ln {
			out = e.strConcat(out, e.mkStr(" "))
		}
		out = e.strConcat(out, e.formatValue(a, 'v'))
	}
	if ln {
		out = e.strConcat(out, e.mkStr("\n"))
	}
	return out
}

func (e *Exec) namedType(pkg, name string) types.Type {
	p := e.p.Prog.ImportedPackage(pkg)
	if p == nil {
		e.unsupported("package %s not loaded", pkg)
	}
	t := p.Type(name)
	if t == nil {
		e.unsupported("type %s.%s not found", pkg, name)
	}
	return t.Type()
}

func (e *Exec) newErrorString(msg Str) Iface {
	var cell Value = Struct{msg}
	return Iface{T: types.NewPointer(e.namedType("errors", "errorString")), V: &cell}
}

func fmtErrorf(e *Exec, _ *frame, _ *ssa.Function, a []Value) Value {
	msg, wrapped := e.sprintf(a[0].(Str), a[1].(Slice).A)
	switch len(wrapped) {
	case 0:
		return e.newErrorString(msg)
	case 1:
		var cell Value = Struct{msg, wrapped[0]}
		return Iface{T: types.NewPointer(e.namedType("fmt", "wrapError")), V: &cell}
	}
	errs := make([]Value, len(wrapped))
	for i, w := range wrapped {
		errs[i] = w
	}
	var cell Value = Struct{msg, Slice{A: errs}}
	return Iface{T: types.NewPointer(e.namedType("fmt", "wrapErrors")), V: &cell}
}

func (e *Exec) errorsIs(err, target Iface, depth int) bool {
	if err.T == nil || target.T == nil {
		return err.T == nil && target.T == nil
	}
	if depth > 50 {
		e.unsupported("errors.Is: chain too deep")
	}
	if types.Comparable(target.T) && types.Identical(err.T, target.T) {
		if e.decide(e.equals(err.T, err.V, target.V)) {
			return true
		}
	}
	if m := e.findMethod(err.T, "Is"); m != nil && m.Signature.Params().Len() == 1 {
		if e.decide(e.callValue(m, err.V, target).(*smt.Term)) {
			return true
		}
	}
	if m := e.findMethod(err.T, "Unwrap"); m != nil && m.Signature.Params().Len() == 0 && m.Signature.Results().Len() == 1 {
		r := e.callValue(m, err.V)
		switch r := r.(type) {
		case Iface:
			if r.T == nil {
				return false
			}
			return e.errorsIs(r, target, depth+1)
		case Slice:
			for _, x := range r.A {
				if xi := x.(Iface); xi.T != nil && e.errorsIs(xi, target, depth+1) {
					return true
				}
			}
		}
	}
	return false
}

func errorsAs(e *Exec, _ *frame, fn *ssa.Function, a []Value) Value {
	err := a[0].(Iface)
	tgt := a[1].(Iface)
	if tgt.T == nil {
		e.runtimePanic("errors: target cannot be nil")
	}
	pt, ok := tgt.T.Underlying().(*types.Pointer)
	if !ok {
		e.runtimePanic("errors: target must be a non-nil pointer")
	}
	want := pt.Elem()
	for depth := 0; err.T != nil && depth < 50; depth++ {
		if iw, isI := want.Underlying().(*types.Interface); isI {
			if types.Implements(err.T, iw) {
				e.store(tgt.V.(*Value), err)
				return e.c.True
			}
		} else if types.Identical(err.T, want) {
			e.store(tgt.V.(*Value), err.V)
			return e.c.True
		}
		m := e.findMethod(err.T, "Unwrap")
		if m == nil || m.Signature.Params().Len() != 0 {
			break
		}
		r := e.callValue(m, err.V)
		switch r := r.(type) {
		case Iface:
			err = r
		case Slice:
			for _, x := range r.A {
				if xi := x.(Iface); xi.T != nil {
					if b, _ := errorsAs(e, nil, fn, []Value{xi, tgt}).(*smt.Term).ConstBool(); b {
						return e.c.True
					}
				}
			}
			return e.c.False
		default:
			return e.c.False
		}
	}
	return e.c.False
}

// ---------------------------------------------------------------------------
// sync/atomic: the typed wrappers keep their value in field "v" (last field)

func registerAtomics() {
	for _, tn := range []string{"Int32", "Int64", "Uint32", "Uint64", "Uintptr"} {
		tn := tn
		p := "(*sync/atomic." + tn + ")."
		intrinsics[p+"Load"] = func(e *Exec, _ *frame, _ *ssa.Function, a []Value) Value { return *atomicCell(e, a[0]) }
		intrinsics[p+"Store"] = func(e *Exec, _ *frame, _ *ssa.Function, a []Value) Value { *atomicCell(e, a[0]) = a[1]; return nil }
		intrinsics[p+"Add"] = func(e *Exec, _ *frame, _ *ssa.Function, a []Value) Value {
			c := atomicCell(e, a[0])
			*c = e.c.Bin(smt.KAdd, (*c).(*smt.Term), a[1].(*smt.Term))
			return *c
		}
		intrinsics[p+"Swap"] = func(e *Exec, _ *frame, _ *ssa.Function, a []Value) Value {
			c := atomicCell(e, a[0])
			old := *c
			*c = a[1]
			return old
		}
		intrinsics[p+"CompareAndSwap"] = func(e *Exec, _ *frame, _ *ssa.Function, a []Value) Value {
			c := atomicCell(e, a[0])
			if e.decide(e.c.Eq((*c).(*smt.Term), a[1].(*smt.Term))) {
				*c = a[2]
				return e.c.True
			}
			return e.c.False
		}
	}
	intrinsics["(*sync/atomic.Bool).Load"] = func(e *Exec, _ *frame, _ *ssa.Function, a []Value) Value {
		return e.c.Not(e.c.Eq((*atomicCell(e, a[0])).(*smt.Term), e.c.BV(0, 32)))
	}
	intrinsics["(*sync/atomic.Bool).Store"] = func(e *Exec, _ *frame, _ *ssa.Function, a []Value) Value {
		*atomicCell(e, a[0]) = e.c.Ite(a[1].(*smt.Term), e.c.BV(1, 32), e.c.BV(0, 32))
		return nil
	}
	intrinsics["(*sync/atomic.Value).Load"] = func(e *Exec, _ *frame, _ *ssa.Function, a []Value) Value {
		return (*a[0].(*Value)).(Struct)[0]
	}
	intrinsics["(*sync/atomic.Value).Store"] = func(e *Exec, _ *frame, _ *ssa.Function, a []Value) Value {
		if a[1].(Iface).T == nil {
			e.runtimePanic("sync/atomic: store of nil value into Value")
		}
		(*a[0].(*Value)).(Struct)[0] = a[1]
		return nil
	}
	intrinsics["(*sync/atomic.Value).CompareAndSwap"] = func(e *Exec, _ *frame, _ *ssa.Function, a []Value) Value {
		st := (*a[0].(*Value)).(Struct)
		if e.decide(e.equals(types.NewInterfaceType(nil, nil), st[0], a[1])) {
			st[0] = a[2]
			return e.c.True
		}
		return e.c.False
	}
	// slices.overlaps (used by slices.Insert/Delete/Replace): pointer arithmetic over element
	// addresses in the original; here: do the two windows share a cell of one backing array
	intrinsics["slices.overlaps"] = func(e *Exec, _ *frame, _ *ssa.Function, a []Value) Value {
		x, y := a[0].(Slice), a[1].(Slice)
		for i := range x.A {
			for j := range y.A {
				if &x.A[i] == &y.A[j] {
					return e.c.True
				}
			}
		}
		return e.c.False
	}
	// atomic.Pointer[T]: generic methods are matched through their origin
	intrinsics["(*sync/atomic.Pointer[T]).Load"] = func(e *Exec, _ *frame, _ *ssa.Function, a []Value) Value { return *atomicCell(e, a[0]) }
	intrinsics["(*sync/atomic.Pointer[T]).Store"] = func(e *Exec, _ *frame, _ *ssa.Function, a []Value) Value {
		*atomicCell(e, a[0]) = a[1]
		return nil
	}
	intrinsics["(*sync/atomic.Pointer[T]).Swap"] = func(e *Exec, _ *frame, _ *ssa.Function, a []Value) Value {
		c := atomicCell(e, a[0])
		old := *c
		*c = a[1]
		return old
	}
	intrinsics["(*sync/atomic.Pointer[T]).CompareAndSwap"] = func(e *Exec, _ *frame, _ *ssa.Function, a []Value) Value {
		c := atomicCell(e, a[0])
		cur, _ := (*c).(*Value)
		old, _ := a[1].(*Value)
		if cur == old {
			*c = a[2]
			return e.c.True
		}
		return e.c.False
	}
	for _, fn := range []string{"Int32", "Int64", "Uint32", "Uint64", "Uintptr"} {
		intrinsics["sync/atomic.Load"+fn] = func(e *Exec, _ *frame, _ *ssa.Function, a []Value) Value {
			e.preemptPoint()
			return e.load(a[0].(*Value))
		}
		intrinsics["sync/atomic.Store"+fn] = func(e *Exec, _ *frame, _ *ssa.Function, a []Value) Value {
			e.preemptPoint()
			e.store(a[0].(*Value), a[1])
			return nil
		}
		intrinsics["sync/atomic.Add"+fn] = func(e *Exec, _ *frame, _ *ssa.Function, a []Value) Value {
			e.preemptPoint()
			p := a[0].(*Value)
			n := e.c.Bin(smt.KAdd, e.load(p).(*smt.Term), a[1].(*smt.Term))
			e.store(p, n)
			return n
		}
		intrinsics["sync/atomic.CompareAndSwap"+fn] = func(e *Exec, _ *frame, _ *ssa.Function, a []Value) Value {
			e.preemptPoint()
			p := a[0].(*Value)
			if e.decide(e.c.Eq(e.load(p).(*smt.Term), a[1].(*smt.Term))) {
				e.store(p, a[2])
				return e.c.True
			}
			return e.c.False
		}
	}
}

func atomicCell(e *Exec, recv Value) *Value {
	e.preemptPoint()
	p := recv.(*Value)
	if p == nil {
		e.runtimePanic("nil atomic")
	}
	st := (*p).(Struct)
	return &st[len(st)-1]
}

// ---------------------------------------------------------------------------
// opaque packages

func (e *Exec) opaqueResult(t types.Type, what string) Value {
	switch u := t.Underlying().(type) {
	case *types.Basic:
		switch {
		case u.Info()&types.IsBoolean != 0:
			return e.freshIntOrBool("opaque."+what, 0)
		case u.Info()&types.IsInteger != 0:
			w, _, _ := intWidth(u)
			return e.freshIntOrBool("opaque."+what, w)
		case u.Info()&types.IsString != 0:
			return e.newOpaqueStr()
		case u.Info()&types.IsFloat != 0:
			return float64(0)
		}
	case *types.Interface:
		if t.String() == "error" {
			return Iface{}
		}
		return Iface{T: t, V: &Opaque{Kind: "opaque", Name: what, T: t}}
	case *types.Slice:
		return Slice{}
	case *types.Map:
		return (*Map)(nil)
	case *types.Pointer, *types.Struct, *types.Signature, *types.Chan, *types.Array:
		return &Opaque{Kind: "opaque", Name: what, T: t}
	}
	return &Opaque{Kind: "opaque", Name: what, T: t}
}

func (e *Exec) freshIntOrBool(base string, w int) *smt.Term {
	return e.namedVar(e.freshName(base), w)
}

func (e *Exec) resultsOf(sig *types.Signature, what string) Value {
	res := sig.Results()
	switch res.Len() {
	case 0:
		return nil
	case 1:
		return e.opaqueResult(res.At(0).Type(), what)
	}
	t := make(Tuple, res.Len())
	for i := range t {
		t[i] = e.opaqueResult(res.At(i).Type(), what)
	}
	return t
}

func (e *Exec) opaqueCall(fn *ssa.Function, args []Value) Value {
	ret := e.resultsOf(fn.Signature, fn.String())
	e.callLog = append(e.callLog, &CallRec{Fn: fn.String(), Args: args, Ret: ret})
	e.noteFn(fn.String() + " (opaque: recorded, not executed)")
	return ret
}

func (e *Exec) callOpaqueMethod(caller *frame, m *opaqueMethod, args []Value) Value {
	if h, ok := m.recv.Data.(map[string]Value); ok {
		if f, ok := h[m.name]; ok {
			return e.call(caller, 0, f, args)
		}
	}
	ret := e.resultsOf(m.sig, m.recv.Name+"."+m.name)
	e.callLog = append(e.callLog, &CallRec{Fn: "(" + m.recv.Name + ")." + m.name, Args: append([]Value{m.recv}, args...), Ret: ret})
	return ret
}

// findMethod returns the method named name in t's method set, or nil.
func (e *Exec) findMethod(t types.Type, name string) *ssa.Function {
	ms := e.p.Prog.MethodSets.MethodSet(t)
	for i := 0; i < ms.Len(); i++ {
		if ms.At(i).Obj().Name() == name {
			return e.p.Prog.MethodValue(ms.At(i))
		}
	}
	return nil
}

// mathRound: Trunc/Floor/Ceil are the identity on float64(integer term).
func mathRound(f func(float64) float64) intrinsic {
	return func(e *Exec, _ *frame, _ *ssa.Function, a []Value) Value {
		switch x := a[0].(type) {
		case float64:
			return f(x)
		case FloatOf:
			if x.T != nil {
				return x
			}
		}
		e.unsupported("rounding of an unknown float")
		return nil
	}
}

func (e *Exec) allASCII(s Str) *smt.Term {
	r := e.c.True
	for _, b := range s.B {
		r = e.c.And(r, e.c.Cmp(smt.KUlt, b, e.byteConst[0x80]))
	}
	return r
}

func (e *Exec) lowerByte(b *smt.Term) *smt.Term {
	isUp := e.c.And(e.c.Cmp(smt.KUle, e.byteConst['A'], b), e.c.Cmp(smt.KUle, b, e.byteConst['Z']))
	return e.c.Ite(isUp, e.c.Bin(smt.KAdd, b, e.byteConst[32]), b)
}

func (e *Exec) upperByte(b *smt.Term) *smt.Term {
	isLo := e.c.And(e.c.Cmp(smt.KUle, e.byteConst['a'], b), e.c.Cmp(smt.KUle, b, e.byteConst['z']))
	return e.c.Ite(isLo, e.c.Bin(smt.KSub, b, e.byteConst[32]), b)
}

func (e *Exec) asciiCase(caller *frame, fn *ssa.Function, a []Value, lower bool) Value {
	s := a[0].(Str)
	if s.OpaqueID != 0 || !e.decide(e.allASCII(s)) {
		return e.callBody(caller, fn, a)
	}
	out := make([]*smt.Term, len(s.B))
	for i, b := range s.B {
		if lower {
			out[i] = e.lowerByte(b)
		} else {
			out[i] = e.upperByte(b)
		}
	}
	return Str{B: out}
}

// callBody executes fn's real SSA body (used by intrinsics that only handle a fast case).
func (e *Exec) callBody(caller *frame, fn *ssa.Function, args []Value) Value {
	e.forceBody++
	defer func() { e.forceBody-- }()
	return e.callSSA(caller, 0, fn, args, nil)
}
