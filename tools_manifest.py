#!/usr/bin/env python3
"""Regenerates MANIFEST.json from checks.json + manifest_meta.json (property texts for level notes)."""
import json, sys
meta = json.load(open('/verif/manifest_meta.json'))
checks = json.load(open('/verif/checks.json'))
props = [json.loads(l)['id'] for l in open('/verif/properties.jsonl')]
m = {
 "version": 1,
 "setup_cmd": "cd /verif && mkdir -p bin && cd engine && GOFLAGS=-mod=mod GOPROXY=off GOSUMDB=off GOTOOLCHAIN=local go build -o ../bin/symgo ./cmd/symgo",
 "hooks": {"guard": "verif", "enable": "none needed: harnesses are injected with go/packages Overlay (engine) and go test -overlay (native replay); no hook commits in /repo",
           "baseline_off_cmd": "cd /repo && go test -mod=mod -vet=off -count=1 ./...", "source_commits": [], "add_only": True},
 "engines": [{"name": "symgo", "path": "/verif/engine", "serves_properties": [p for p in props if p in checks and p in meta["claimed"]],
              "kind_free_text": "own symbolic executor for go/ssa (x/tools v0.29.0): integers/bools/string bytes are QF_BV terms, paths forked by re-execution, every branch/assertion decided by cvc5 or z3 (per harness; z3-new as alternate; the thorough tier re-decides most harnesses with the other solver) through a live pipe; schedules explored by bounded preemption; differential harnesses run one solver-produced witness per model path on the real code; counterexamples replayed against the native build with go test -overlay"}],
 "checks": [], "not_applicable": [],
 "notes": meta.get("notes", "")
}
for p in props:
    if p in checks and p in meta["claimed"]:
        c = meta["claimed"][p]
        m["checks"].append({
            "property_id": p,
            "quick_cmd": f"./check {p} --tier quick",
            "thorough_cmd": f"./check {p} --tier thorough",
            "evidence_file": f"/verif/evidence/{p}.json",
            "replay_cmd_template": "./check replay {path}",
            "engine": "symgo",
            "level_claimed": {"category": "model_checking", "text": c["text"], "design_ref": c.get("design_ref", "DESIGN.md §0 (as built) and §5 " + p)},
            "level_note": c["note"],
            "technique": c.get("technique", "bounded symbolic execution of the real functions' go/ssa with SMT (QF_BV; cvc5 or z3) deciding every path condition and assertion; counterexamples replayed natively"),
        })
    else:
        m["not_applicable"].append({"property_id": p, "reason": meta["not_applicable"].get(p, "check not built yet in this session (solver-based harness pending)")})
json.dump(m, open('/verif/MANIFEST.json', 'w'), indent=1)
print("checks:", [c["property_id"] for c in m["checks"]], "n/a:", [n["property_id"] for n in m["not_applicable"]])
