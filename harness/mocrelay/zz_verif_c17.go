package mocrelay

import (
	"context"
	"fmt"
	"time"
)

func init() {
	vpHarnesses["vpH_C17_sizes"] = vpH_C17_sizes
	vpHarnesses["vpH_C17_matcher"] = vpH_C17_matcher
	vpHarnesses["vpH_C17_loop"] = vpH_C17_loop
	vpHarnesses["vpH_C17_nip11"] = vpH_C17_nip11
	vpHarnesses["vpH_C17_nip11_identity"] = vpH_C17_nip11_identity
}

// ---------------------------------------------------------------------------
// message generators: sizes are shapes, contents symbolic

func vpGenSizedEvent(name string) *Event {
	e := &Event{ID: vpSym1(name + ".id"), Pubkey: vpSym1(name + ".pk"), Kind: vpInt64(name + ".kind"), CreatedAt: vpInt64(name + ".at"), Tags: []Tag{}}
	nt := vpChoice(name+".ntags", 4)
	for i := 0; i < nt; i++ {
		e.Tags = append(e.Tags, Tag{vpSym1(fmt.Sprintf("%s.t%d", name, i))})
	}
	e.Content = vpString(name+".content", vpChoice(name+".contentlen", 4))
	return e
}

func vpGenSizedFilters(name string) []*ReqFilter {
	n := vpChoice(name+".nfilters", 4)
	fs := make([]*ReqFilter, n)
	for i := range fs {
		fs[i] = &ReqFilter{Limit: vpGenOptInt(fmt.Sprintf("%s.f%d.limit", name, i))}
	}
	return fs
}

// vpGenClientMsg: one of the five client message types.
func vpGenClientMsg(name string) ClientMsg {
	switch vpChoice(name+".type", 5) {
	case 0:
		return &ClientEventMsg{Event: vpGenSizedEvent(name + ".ev")}
	case 1:
		return &ClientReqMsg{SubscriptionID: vpString(name+".sub", vpChoice(name+".sublen", 4)), ReqFilters: vpGenSizedFilters(name)}
	case 2:
		return &ClientCloseMsg{SubscriptionID: vpString(name+".sub", vpChoice(name+".sublen", 4))}
	case 3:
		return &ClientAuthMsg{Event: vpGenSizedEvent(name + ".ev")}
	default:
		return &ClientCountMsg{SubscriptionID: vpString(name+".sub", vpChoice(name+".sublen", 4)), ReqFilters: vpGenSizedFilters(name)}
	}
}

// vpGenServerMsg: one of the seven server message types.
func vpGenServerMsg(name string) ServerMsg {
	sub := vpSym1(name + ".sub")
	switch vpChoice(name+".type", 7) {
	case 0:
		return NewServerEOSEMsg(sub)
	case 1:
		return NewServerEventMsg(sub, &Event{ID: vpSym1(name + ".id"), Tags: []Tag{}})
	case 2:
		return NewServerNoticeMsg("n")
	case 3:
		return NewServerOKMsg(vpSym1(name+".id"), vpBool(name+".acc"), "", "m")
	case 4:
		return &ServerAuthMsg{Challenge: "c"}
	case 5:
		return NewServerCountMsg(sub, vpUint64(name+".count"), nil)
	default:
		return NewServerClosedMsg(sub, "", "m")
	}
}

func vpDrainClient(ch <-chan ClientMsg) []ClientMsg {
	var out []ClientMsg
	if ch == nil {
		return nil
	}
	for m := range ch {
		out = append(out, m)
	}
	return out
}

func vpDrainServer(ch <-chan ServerMsg) []ServerMsg {
	var out []ServerMsg
	if ch == nil {
		return nil
	}
	for m := range ch {
		out = append(out, m)
	}
	return out
}

// vpCheckVerdict: either msg is forwarded unchanged and nothing is replied, or
// nothing is forwarded and exactly one rejection of the protocol's type for msg
// (OK false with the event id / CLOSED with the subscription id) is replied.
func vpCheckVerdict(P string, msg ClientMsg, respects bool, cm <-chan ClientMsg, sm <-chan ServerMsg, err error) {
	vpAssert(err == nil, P+".no-error")
	fwd := vpDrainClient(cm)
	rep := vpDrainServer(sm)
	if respects {
		vpAssert(len(fwd) == 1 && len(rep) == 0, P+".forward-exactly")
		if len(fwd) == 1 {
			vpAssert(vpUnchanged(fwd[0], msg), P+".forward-unchanged")
		}
		return
	}
	vpAssert(len(fwd) == 0 && len(rep) == 1, P+".reject-exactly-one")
	if len(rep) != 1 {
		return
	}
	switch m := msg.(type) {
	case *ClientEventMsg:
		ok, isOK := rep[0].(*ServerOKMsg)
		vpAssert(isOK, P+".reject-type-ok")
		if isOK {
			vpAssert(!ok.Accepted, P+".reject-ok-false")
			vpAssert(ok.EventID == m.Event.ID, P+".reject-names-event")
		}
	case *ClientReqMsg:
		cl, isCl := rep[0].(*ServerClosedMsg)
		vpAssert(isCl, P+".reject-type-closed")
		if isCl {
			vpAssert(cl.SubscriptionID == m.SubscriptionID, P+".reject-names-sub")
		}
	case *ClientCountMsg:
		cl, isCl := rep[0].(*ServerClosedMsg)
		vpAssert(isCl, P+".reject-type-closed")
		if isCl {
			vpAssert(cl.SubscriptionID == m.SubscriptionID, P+".reject-names-sub")
		}
	default:
		vpAssert(false, P+".reject-of-unrejectable-type")
	}
}

func vpCheckServerPass(P string, base SimpleMiddlewareBase, ctx context.Context) {
	sm := vpGenServerMsg("s")
	ch, err := base.ServeNostrServerMsg(ctx, sm)
	vpAssert(err == nil, P+".server-no-error")
	out := vpDrainServer(ch)
	vpAssert(len(out) == 1, P+".server-pass-one")
	if len(out) == 1 {
		vpAssert(vpUnchanged(out[0], sm), P+".server-pass-unchanged")
	}
}

// C17: size limits. The limit is a free positive integer; sizes 0..3 are
// shapes, so "below, at, above" is the solver's choice of the limit.
func vpH_C17_sizes() {
	limit := vpInt("limit")
	vpAssume(limit >= 1)
	msg := vpGenClientMsg("m")
	which := vpChoice("middleware", 5)
	var mw Middleware
	respects := true
	switch which {
	case 0:
		mw = Middleware(NewMaxReqFiltersMiddleware(limit))
		switch m := msg.(type) {
		case *ClientReqMsg:
			respects = len(m.ReqFilters) <= limit
		case *ClientCountMsg:
			respects = len(m.ReqFilters) <= limit
		}
	case 1:
		mw = Middleware(NewMaxLimitMiddleware(limit))
		var fs []*ReqFilter
		switch m := msg.(type) {
		case *ClientReqMsg:
			fs = m.ReqFilters
		case *ClientCountMsg:
			fs = m.ReqFilters
		}
		for _, f := range fs {
			if f.Limit != nil {
				respects = vpAnd(respects, *f.Limit <= int64(limit))
			}
		}
	case 2:
		mw = Middleware(NewMaxSubIDLengthMiddleware(limit))
		switch m := msg.(type) {
		case *ClientReqMsg:
			respects = len(m.SubscriptionID) <= limit
		case *ClientCountMsg:
			respects = len(m.SubscriptionID) <= limit
		}
	case 3:
		mw = Middleware(NewMaxEventTagsMiddleware(limit))
		if m, ok := msg.(*ClientEventMsg); ok {
			respects = len(m.Event.Tags) <= limit
		}
	case 4:
		mw = Middleware(NewMaxContentLengthMiddleware(limit))
		if m, ok := msg.(*ClientEventMsg); ok {
			respects = len(m.Event.Content) <= limit
		}
	}
	vpRunVerdict("C17", mw, msg, respects)
	vpReach("end")
}

// vpRunVerdict: one real session of the middleware around a recording handler: the verdict
// on msg, then a server message passes unchanged.
func vpRunVerdict(P string, mw Middleware, msg ClientMsg, respects bool) {
	inner := &vpInner{}
	ss := vpStartSession(mw(inner), inner)
	vpAssert(ss.inner != nil, P+".start")
	fwd, rep := ss.client(msg)
	vpVerdict(P, msg, respects, fwd, rep)
	sm := vpGenServerMsg("s")
	out := ss.server(sm)
	vpAssert(len(out) == 1, P+".server-pass-one")
	if len(out) == 1 {
		vpAssert(vpUnchanged(out[0], sm), P+".server-pass-unchanged")
	}
	ss.cancel()
}

type vpFreeMatcher struct{ verdict bool }

func (m vpFreeMatcher) Match(*Event) bool { return m.verdict }

// C17: allow/deny filters with a free matcher outcome; created_at windows with
// the clock as a free duration (engine stub) and representative limits.
func vpH_C17_matcher() {
	msg := vpGenClientMsg("m")
	which := vpChoice("middleware", 5)
	var mw Middleware
	respects := true
	_, isEvent := msg.(*ClientEventMsg)
	switch which {
	case 0:
		v := vpBool("verdict")
		mw = Middleware(NewRecvEventAllowFilterMiddleware(vpFreeMatcher{v}))
		if isEvent {
			respects = v
		}
	case 1:
		v := vpBool("verdict")
		mw = Middleware(NewRecvEventDenyFilterMiddleware(vpFreeMatcher{v}))
		if isEvent {
			respects = !v
		}
	default:
		if !vpSymbolic() {
			// the clock is an engine-side stub; no native counterpart
			vpReach("end")
			return
		}
		secs := []int64{0, 1, 60, 1 << 31}[vpChoice("secs", 4)]
		lim := time.Duration(secs) * time.Second
		// the clock is read while the message is served; its k-th value is named afterwards
		from := int64(0)
		switch which {
		case 2:
			mw = Middleware(NewCreatedAtLowerLimitMiddleware(secs))
		case 3:
			mw = Middleware(NewCreatedAtUpperLimitMiddleware(secs))
		case 4:
			from = vpInt64("from")
			mw = Middleware(NewEventCreatedAtMiddleware(time.Duration(from), lim))
		}
		inner := &vpInner{}
		ss := vpStartSession(mw(inner), inner)
		vpAssert(ss.inner != nil, "C17.start")
		fwd, rep := ss.client(msg)
		if isEvent {
			switch which {
			case 2:
				respects = vpClock("clock.since", 0) <= int64(lim)
			case 3:
				respects = vpClock("clock.until", 0) <= int64(lim)
			case 4:
				d := vpClock("clock.until", 0)
				respects = vpAnd(from <= d, d <= int64(lim))
			}
		}
		vpVerdict("C17", msg, respects, fwd, rep)
		ss.cancel()
		vpReach("end")
		return
	}
	vpRunVerdict("C17", mw, msg, respects)
	vpReach("end")
}

// C17: the real middleware loops forward everything else unchanged and in
// order: k client messages through simpleMiddlewareHandleRecv with a base that
// rejects by a free per-message verdict, then server messages through
// simpleMiddlewareHandleSend.
type vpVerdictBase struct {
	reject map[ClientMsg]bool
}

func (b *vpVerdictBase) ServeNostrStart(ctx context.Context) (context.Context, error) {
	return ctx, nil
}
func (b *vpVerdictBase) ServeNostrEnd(ctx context.Context) error { return nil }
func (b *vpVerdictBase) ServeNostrClientMsg(ctx context.Context, msg ClientMsg) (<-chan ClientMsg, <-chan ServerMsg, error) {
	if b.reject[msg] {
		return nil, newClosedBufCh[ServerMsg](NewServerNoticeMsg("rejected")), nil
	}
	return newClosedBufCh(msg), nil, nil
}
func (b *vpVerdictBase) ServeNostrServerMsg(ctx context.Context, msg ServerMsg) (<-chan ServerMsg, error) {
	return newClosedBufCh(msg), nil
}

func vpH_C17_loop() {
	k := 1 + vpChoice("k", 3)
	base := &vpVerdictBase{reject: map[ClientMsg]bool{}}
	inner := &vpInner{}
	ss := vpStartSession(NewSimpleMiddleware(base)(inner), inner)
	vpAssert(ss.inner != nil, "C17.start")
	var msgs []ClientMsg
	var rej []bool
	for i := 0; i < k; i++ {
		m := &ClientCloseMsg{SubscriptionID: fmt.Sprintf("s%d", i)}
		r := vpChoice("reject", 2) == 1
		base.reject[m] = r
		msgs = append(msgs, m)
		rej = append(rej, r)
	}
	// the k messages are pipelined (sent without waiting for their outcome)
	go func() {
		for _, m := range msgs {
			ss.toMW <- m
		}
	}()
	for i := 0; i < 4; i++ {
		ss.wait()
	}
	fwd, rep := ss.drain()
	var want []ClientMsg
	nrej := 0
	for i, m := range msgs {
		if rej[i] {
			nrej++
		} else {
			want = append(want, m)
		}
	}
	vpAssert(len(fwd) == len(want), "C17.loop-forwards-the-rest")
	for i := range want {
		if i < len(fwd) {
			vpAssert(vpUnchanged(fwd[i], want[i]), "C17.loop-order-unchanged")
		}
	}
	vpAssert(len(rep) == nrej, "C17.loop-one-reply-per-rejection")

	// send side: k server messages emitted by the wrapped handler arrive unchanged, in order
	var smsgs []ServerMsg
	for i := 0; i < k; i++ {
		m := NewServerEOSEMsg(fmt.Sprintf("s%d", i))
		smsgs = append(smsgs, m)
		ss.inner.emit <- m
	}
	for i := 0; i < 4; i++ {
		ss.wait()
	}
	_, out := ss.drain()
	vpAssert(len(out) == k, "C17.loop-server-order-unchanged")
	for i := 0; i < k && i < len(out); i++ {
		vpAssert(vpUnchanged(out[i], smsgs[i]), "C17.loop-server-order-unchanged")
	}
	ss.cancel()
	vpReach("end")
}

// C17: BuildMiddlewareFromNIP11 wires exactly the middlewares whose limitation
// field is non-zero, each with its own field's value, around the given
// handler; no document / no limitation block => identity. The seven
// constructors are replaced by recording stubs (engine-side vpStub).
type vpMarkHandler struct {
	name  string
	value int64
	inner Handler
}

func (h *vpMarkHandler) ServeNostr(ctx context.Context, send chan<- ServerMsg, recv <-chan ClientMsg) error {
	return nil
}

var vpMarkCalls int // constructor stubs called since the harness started

func vpMarkMiddleware(name string, v int64) func(Handler) Handler {
	vpMarkCalls++
	return func(h Handler) Handler { return &vpMarkHandler{name, v, h} }
}

func vpInstallNIP11Stubs() {
	const P = "github.com/high-moctane/mocrelay."
	vpMarkCalls = 0
	vpStub(P+"NewMaxSubscriptionsMiddleware", func(v int) MaxSubscriptionsMiddleware {
		return MaxSubscriptionsMiddleware(vpMarkMiddleware("max_subscriptions", int64(v)))
	})
	vpStub(P+"NewMaxReqFiltersMiddleware", func(v int) MaxReqFiltersMiddleware {
		return MaxReqFiltersMiddleware(vpMarkMiddleware("max_filters", int64(v)))
	})
	vpStub(P+"NewMaxLimitMiddleware", func(v int) MaxLimitMiddleware {
		return MaxLimitMiddleware(vpMarkMiddleware("max_limit", int64(v)))
	})
	vpStub(P+"NewMaxEventTagsMiddleware", func(v int) MaxEventTagsMiddleware {
		return MaxEventTagsMiddleware(vpMarkMiddleware("max_event_tags", int64(v)))
	})
	vpStub(P+"NewMaxContentLengthMiddleware", func(v int) MaxContentLengthMiddleware {
		return MaxContentLengthMiddleware(vpMarkMiddleware("max_content_length", int64(v)))
	})
	vpStub(P+"NewCreatedAtLowerLimitMiddleware", func(v int64) CreatedAtLowerLimitMiddleware {
		return CreatedAtLowerLimitMiddleware(vpMarkMiddleware("created_at_lower_limit", v))
	})
	vpStub(P+"NewCreatedAtUpperLimitMiddleware", func(v int64) CreatedAtUpperLimitMiddleware {
		return CreatedAtUpperLimitMiddleware(vpMarkMiddleware("created_at_upper_limit", v))
	})
}

func vpH_C17_nip11() {
	vpInstallNIP11Stubs()
	if !vpSymbolic() {
		vpReach("end")
		return
	}
	base := NewDefaultHandler()
	{
		lim := &NIP11Limitation{
			MaxSubscriptions: vpInt("max_subscriptions"), MaxFilters: vpInt("max_filters"), MaxLimit: vpInt("max_limit"),
			MaxEventTags: vpInt("max_event_tags"), MaxContentLength: vpInt("max_content_length"),
			CreatedAtLowerLimit: vpInt64("created_at_lower_limit"), CreatedAtUpperLimit: vpInt64("created_at_upper_limit"),
			// fields that configure no middleware of this chain
			MaxMessageLength: vpInt("max_message_length"), MaxSubIDLength: vpInt("max_subid_length"), MinPoWDifficulty: vpInt("min_pow"),
		}
		want := map[string]int64{
			"max_subscriptions": int64(lim.MaxSubscriptions), "max_filters": int64(lim.MaxFilters), "max_limit": int64(lim.MaxLimit),
			"max_event_tags": int64(lim.MaxEventTags), "max_content_length": int64(lim.MaxContentLength),
			"created_at_lower_limit": lim.CreatedAtLowerLimit, "created_at_upper_limit": lim.CreatedAtUpperLimit,
		}
		for _, v := range want {
			vpAssume(v >= 0)
		}
		h := BuildMiddlewareFromNIP11(&NIP11{Limitation: lim})(base)
		seen := map[string]bool{}
		var order []string // outermost first
		for {
			mh, ok := h.(*vpMarkHandler)
			if !ok {
				break
			}
			order = append(order, mh.name)
			vpAssert(!seen[mh.name], "C17.nip11-each-middleware-once")
			seen[mh.name] = true
			vpAssert(mh.value == want[mh.name], "C17.nip11-own-value")
			vpAssert(mh.value != 0, "C17.nip11-only-set-limits")
			h = mh.inner
		}
		if h != base && vpMarkCalls == 0 {
			// the chain is not composed from the seven constructors (a fused implementation?):
			// this structural harness cannot judge it
			vpUnsupported("BuildMiddlewareFromNIP11 does not call the individual middleware constructors: the structural harness cannot judge the chain")
		}
		vpAssert(h == base, "C17.nip11-wraps-the-handler")
		// a REQ rejected by max_filters / max_limit must not take a subscription slot: the
		// quota sits inside (after) the middlewares that can reject a REQ
		pos := func(name string) int {
			for i, n := range order {
				if n == name {
					return i
				}
			}
			return -1
		}
		if q := pos("max_subscriptions"); q >= 0 {
			for _, outer := range []string{"max_filters", "max_limit"} {
				if o := pos(outer); o >= 0 {
					vpAssert(o < q, "C17.nip11-rejected-req-takes-no-subscription-slot")
				}
			}
		}
		for name, v := range want {
			vpAssert(vpImplies(v != 0, seen[name]), "C17.nip11-every-set-limit-enforced")
		}
	}
	vpReach("end")
}

// No document, or a document without limitation block: the chain is the identity.
func vpH_C17_nip11_identity() {
	vpInstallNIP11Stubs()
	if !vpSymbolic() {
		vpReach("end")
		return
	}
	base := NewDefaultHandler()
	var h Handler
	switch vpChoice("doc", 3) {
	case 0:
		h = BuildMiddlewareFromNIP11(nil)(base)
	case 1:
		h = BuildMiddlewareFromNIP11(&NIP11{Name: "x"})(base)
	case 2:
		h = BuildMiddlewareFromNIP11(&NIP11{Limitation: &NIP11Limitation{}})(base)
	}
	// no limit configured: none of the limit middlewares may be in the chain
	vpAssert(vpMarkCalls == 0, "C17.nip11-no-limit-no-middleware")
	if h != base && vpMarkCalls == 0 {
		vpUnsupported("with no limit configured the chain is neither the handler itself nor built from the constructors: the structural harness cannot judge it")
	}
	vpReach("end")
}
