package sqlite

import (
	"context"
	"database/sql"
	"errors"

	"github.com/high-moctane/mocrelay"
)

func init() {
	vpHarnesses["vpH_C16_sqlite"] = vpH_C16_sqlite
}

// C16, SQLite-backed handler: each EVENT gets exactly one accepting OK with its
// id (also when the insert queue is momentarily full: the handler waits for the
// batch writer, it does not reject), each REQ the stored matches labelled with
// its subscription id followed by exactly one EOSE (also when the query fails),
// COUNT one COUNT reply, CLOSE/AUTH nothing. The store itself is a stub
// (queryEvent returns a free number of events or an error); a consumer
// goroutine plays the batch writer.
func vpH_C16_sqlite() {
	if !vpSymbolic() {
		vpReach("end")
		return
	}
	stored := []*mocrelay.Event{{ID: "s1"}, {ID: "s2"}}
	var queryErr error
	nres := 0
	vpStub("github.com/high-moctane/mocrelay/handler/sqlite.queryEvent", func(ctx context.Context, db *sql.DB, seed uint32, fs []*mocrelay.ReqFilter, maxLimit uint) ([]*mocrelay.Event, error) {
		if queryErr != nil {
			return nil, queryErr
		}
		return stored[:nres], nil
	})
	h := &simpleSQLiteHandler{eventCh: make(chan *mocrelay.Event, 2)}
	consumed := 0
	go func() { // the batch writer: takes events whenever it gets to run
		for range h.eventCh {
			consumed++
		}
	}()
	ctx := context.Background()
	k := 3
	if vpTier() > 0 {
		k = 4
	}
	for i := 0; i < k; i++ {
		switch vpChoice("type", 5) {
		case 0:
			ev := &mocrelay.Event{ID: vpString("id", 1)}
			ch, err := h.ServeNostrClientMsg(ctx, &mocrelay.ClientEventMsg{Event: ev})
			vpAssert(err == nil && ch != nil, "C16.sqlite-event-served")
			n := 0
			for m := range ch {
				ok, isOK := m.(*mocrelay.ServerOKMsg)
				vpAssert(isOK && ok.Accepted && ok.EventID == ev.ID, "C16.sqlite-event-gets-accepting-ok")
				n++
			}
			vpAssert(n == 1, "C16.sqlite-event-exactly-one-ok")
		case 1:
			sub := vpString("sub", 1)
			nres = vpChoice("nresults", 3)
			queryErr = nil
			if vpChoice("queryfails", 2) == 1 {
				queryErr = errors.New("query failed")
			}
			ch, err := h.ServeNostrClientMsg(ctx, &mocrelay.ClientReqMsg{SubscriptionID: sub, ReqFilters: []*mocrelay.ReqFilter{{}}})
			vpAssert(err == nil && ch != nil, "C16.sqlite-req-served")
			var got []mocrelay.ServerMsg
			for m := range ch {
				got = append(got, m)
			}
			want := nres
			if queryErr != nil {
				want = 0
			}
			vpAssert(len(got) == want+1, "C16.sqlite-req-matches-then-one-eose")
			for j, m := range got {
				if j < len(got)-1 {
					em, isEv := m.(*mocrelay.ServerEventMsg)
					vpAssert(isEv && em.SubscriptionID == sub && em.Event == stored[j], "C16.sqlite-req-match-labelled-in-order")
				} else {
					eose, isE := m.(*mocrelay.ServerEOSEMsg)
					vpAssert(isE && eose.SubscriptionID == sub, "C16.sqlite-req-ends-with-eose")
				}
			}
		case 2:
			sub := vpString("sub", 1)
			ch, err := h.ServeNostrClientMsg(ctx, &mocrelay.ClientCountMsg{SubscriptionID: sub, ReqFilters: []*mocrelay.ReqFilter{{}}})
			vpAssert(err == nil && ch != nil, "C16.sqlite-count-served")
			n := 0
			for m := range ch {
				cm, isC := m.(*mocrelay.ServerCountMsg)
				vpAssert(isC && cm.SubscriptionID == sub, "C16.sqlite-count-answered")
				n++
			}
			vpAssert(n == 1, "C16.sqlite-count-exactly-once")
		case 3:
			ch, err := h.ServeNostrClientMsg(ctx, &mocrelay.ClientCloseMsg{SubscriptionID: "x"})
			vpAssert(err == nil && ch == nil, "C16.sqlite-close-unanswered")
		case 4:
			ch, err := h.ServeNostrClientMsg(ctx, &mocrelay.ClientAuthMsg{Event: &mocrelay.Event{ID: "a"}})
			vpAssert(err == nil && ch == nil, "C16.sqlite-auth-unanswered")
		}
	}
	vpReach("end")
}
