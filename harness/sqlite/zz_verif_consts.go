package sqlite

// Shared constants of the harnesses; in a file of their own (no reference to the code under
// test) so that a harness file dropped by the tolerant loader does not take others with it.

const vpSeed = 7

const (
	vpID1 = "1111111111111111111111111111111111111111111111111111111111111111"
	vpID2 = "2222222222222222222222222222222222222222222222222222222222222222"
	vpPkA = "aaaaaaaaaaaaaaaaaaaaaaaaaaaaaaaaaaaaaaaaaaaaaaaaaaaaaaaaaaaaaaaa"
	vpPkB = "bbbbbbbbbbbbbbbbbbbbbbbbbbbbbbbbbbbbbbbbbbbbbbbbbbbbbbbbbbbbbbbb"
)
