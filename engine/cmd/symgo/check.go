package main

import (
	"bufio"
	"encoding/json"
	"flag"
	"fmt"
	"os"
	osexec "os/exec"
	"path/filepath"
	"sort"
	"strconv"
	"strings"
	"sync"
	"time"

	"symgo/exec"
)

// ---------------------------------------------------------------------------
// Configuration (/verif/checks.json) and known findings (/verif/known_findings.txt)

type HarnessCfg struct {
	Name     string   `json:"name"`
	Solver   string   `json:"solver,omitempty"`  // default z3
	Native   bool     `json:"native"`            // counterexamples and sampled paths are replayed natively
	Reach    []string `json:"reach,omitempty"`   // labels that some path must reach (default: end)
	Tier     int      `json:"tier,omitempty"`    // 1: thorough tier only
	Workers  int      `json:"workers,omitempty"` // default 16
	Timeout  int      `json:"timeout_ms,omitempty"`
	MaxSecs  int      `json:"max_secs,omitempty"` // wall-clock budget; exceeding it is INCONCLUSIVE
	Reverse  bool     `json:"reverse_maps,omitempty"`
	MaxSteps int      `json:"max_steps,omitempty"`
	NoCross  bool     `json:"no_cross,omitempty"` // skip the thorough tier's re-decision by a second solver
	Pkg      string   `json:"pkg,omitempty"`      // harness lives in another package than the property's main one (engine-replayed only)
	HDir     string   `json:"hdir,omitempty"`
	// Cases: completed paths kept per worker for the native run (default 2); a large value keeps every path.
	Cases int `json:"cases,omitempty"`
	// Differential: the engine explores the reference model only; the native run of each kept path
	// executes the real code next to the model and asserts agreement, so a native assertion failure
	// on a path the engine completed is a violation (not a translator mismatch).
	Differential bool `json:"differential,omitempty"`
	// SeamPanic: the harness drives an unexported seam with stand-in arguments (a nil connection,
	// hand-built internal structs): a panic there says that the stand-ins no longer fit the code,
	// not that the property is violated; it is reported INCONCLUSIVE.
	SeamPanic bool `json:"seam_panic_inconclusive,omitempty"`
	selftest  bool
}

type PropCfg struct {
	Pkg         string       `json:"pkg"`
	HDir        string       `json:"hdir"`
	Harnesses   []HarnessCfg `json:"harnesses"`
	Bounds      []string     `json:"bounds"`
	Outside     []string     `json:"outside_bounds"`
	Assumptions []string     `json:"assumptions"`
	Stubs       []string     `json:"stubs"`
}

type KF struct {
	Status   string // open | fixed
	Property string
	ID       string
	What     string
}

func readKF(path string) ([]KF, error) {
	f, err := os.Open(path)
	if err != nil {
		if os.IsNotExist(err) {
			return nil, nil
		}
		return nil, err
	}
	defer f.Close()
	var out []KF
	sc := bufio.NewScanner(f)
	for sc.Scan() {
		line := strings.TrimSpace(sc.Text())
		if line == "" || strings.HasPrefix(line, "#") {
			continue
		}
		var kf KF
		switch {
		case strings.HasPrefix(line, "open:"):
			kf.Status = "open"
			line = strings.TrimSpace(line[5:])
		case strings.HasPrefix(line, "fixed:"):
			kf.Status = "fixed"
			line = strings.TrimSpace(line[6:])
		default:
			continue
		}
		fields := strings.Fields(line)
		rest := []string{}
		for _, fd := range fields {
			switch {
			case strings.HasPrefix(fd, "property=") && kf.Property == "":
				kf.Property = fd[9:]
			case strings.HasPrefix(fd, "id=") && kf.ID == "":
				kf.ID = fd[3:]
			default:
				rest = append(rest, fd)
			}
		}
		kf.What = strings.Join(rest, " ")
		out = append(out, kf)
	}
	return out, sc.Err()
}

// ---------------------------------------------------------------------------
// Native replay

type nativeCase struct {
	Label   string            `json:"label,omitempty"`
	Harness string            `json:"harness"`
	Tier    int               `json:"tier"`
	Inputs  map[string]uint64 `json:"inputs"`
}

type nativeResult struct {
	End   string   `json:"end"`
	Reach []string `json:"reach"`
	Obs   []string `json:"obs"`
}

// nativeRun executes cases against the real build of the package (go test -overlay).
func nativeRun(p *exec.Program, cases []nativeCase) ([]nativeResult, string, error) {
	dir, err := os.MkdirTemp("", "symgo-replay-")
	if err != nil {
		return nil, "", err
	}
	defer os.RemoveAll(dir)
	ov := map[string]map[string]string{"Replace": {}}
	for v, real := range p.Overlay {
		ov["Replace"][v] = real
	}
	ob, _ := json.Marshal(ov)
	ovPath := filepath.Join(dir, "overlay.json")
	os.WriteFile(ovPath, ob, 0o644)
	cb, _ := json.Marshal(cases)
	inPath := filepath.Join(dir, "batch.json")
	outPath := filepath.Join(dir, "out.json")
	os.WriteFile(inPath, cb, 0o644)
	for _, f := range []string{"go.mod", "go.sum"} {
		b, err := os.ReadFile(filepath.Join(p.RepoDir, f))
		if err != nil {
			return nil, "", err
		}
		os.WriteFile(filepath.Join(dir, f), b, 0o644)
	}
	if len(cases) > 512 {
		return nativeRunSharded(p, dir, ovPath, cases)
	}
	cmd := osexec.Command("go", "test", "-modfile="+filepath.Join(dir, "go.mod"), "-vet=off", "-count=1", "-run", "^TestVPReplay$", "-overlay", ovPath, "-timeout", "20m", ".")
	cmd.Dir = p.PkgDir
	cmd.Env = append(nativeEnv(), "VP_BATCH="+inPath, "VP_OUT="+outPath)
	out, err := cmd.CombinedOutput()
	if err != nil {
		return nil, string(out), fmt.Errorf("native replay build/run failed: %v", err)
	}
	rb, err := os.ReadFile(outPath)
	if err != nil {
		return nil, string(out), err
	}
	var res []nativeResult
	if err := json.Unmarshal(rb, &res); err != nil {
		return nil, string(out), err
	}
	return res, string(out), nil
}

// nativeRunSharded builds the test binary once and runs the cases in parallel shards.
func nativeRunSharded(p *exec.Program, dir, ovPath string, cases []nativeCase) ([]nativeResult, string, error) {
	bin := filepath.Join(dir, "replay.test")
	cmd := osexec.Command("go", "test", "-c", "-o", bin, "-modfile="+filepath.Join(dir, "go.mod"), "-vet=off", "-overlay", ovPath, ".")
	cmd.Dir = p.PkgDir
	cmd.Env = nativeEnv()
	if out, err := cmd.CombinedOutput(); err != nil {
		return nil, string(out), fmt.Errorf("native replay build failed: %v", err)
	}
	nsh := 16
	per := (len(cases) + nsh - 1) / nsh
	type shardRes struct {
		res []nativeResult
		out string
		err error
	}
	rs := make([]shardRes, nsh)
	var wg sync.WaitGroup
	for k := 0; k < nsh; k++ {
		lo, hi := k*per, (k+1)*per
		if lo >= len(cases) {
			break
		}
		if hi > len(cases) {
			hi = len(cases)
		}
		wg.Add(1)
		go func(k, lo, hi int) {
			defer wg.Done()
			in := filepath.Join(dir, fmt.Sprintf("batch%d.json", k))
			outp := filepath.Join(dir, fmt.Sprintf("out%d.json", k))
			cb, _ := json.Marshal(cases[lo:hi])
			os.WriteFile(in, cb, 0o644)
			c := osexec.Command(bin, "-test.run", "^TestVPReplay$", "-test.count=1", "-test.timeout", "30m")
			c.Dir = p.PkgDir
			c.Env = append(nativeEnv(), "VP_BATCH="+in, "VP_OUT="+outp)
			o, err := c.CombinedOutput()
			if err != nil {
				rs[k] = shardRes{nil, string(o), fmt.Errorf("native replay shard %d failed: %v", k, err)}
				return
			}
			rb, err := os.ReadFile(outp)
			if err != nil {
				rs[k] = shardRes{nil, string(o), err}
				return
			}
			var res []nativeResult
			if err := json.Unmarshal(rb, &res); err != nil || len(res) != hi-lo {
				rs[k] = shardRes{nil, string(o), fmt.Errorf("native replay shard %d: bad output (%v, %d results for %d cases)", k, err, len(res), hi-lo)}
				return
			}
			rs[k] = shardRes{res, string(o), nil}
		}(k, lo, hi)
	}
	wg.Wait()
	var all []nativeResult
	for _, r := range rs {
		if r.err != nil {
			return nil, r.out, r.err
		}
		all = append(all, r.res...)
	}
	return all, "", nil
}

// ---------------------------------------------------------------------------
// Evidence

type evidence struct {
	PropertyID  string                 `json:"property_id"`
	Tier        string                 `json:"tier"`
	Seed        int64                  `json:"seed"`
	Level       string                 `json:"level"`
	Coverage    map[string]interface{} `json:"coverage"`
	Assumptions []string               `json:"assumptions"`
	WallS       float64                `json:"wall_s"`
	Violations  int                    `json:"violations"`
}

type replayFile struct {
	Property string            `json:"property"`
	Harness  string            `json:"harness"`
	Pkg      string            `json:"pkg"`
	HDir     string            `json:"hdir"`
	Tier     int               `json:"tier"`
	Label    string            `json:"label"`
	Msg      string            `json:"msg"`
	Where    string            `json:"where"`
	Native   bool              `json:"native"`
	Reverse  bool              `json:"reverse_maps,omitempty"`
	Inputs   map[string]uint64 `json:"inputs"`
}

func cmdCheck(args []string) int {
	fs := flag.NewFlagSet("check", flag.ExitOnError)
	repo := fs.String("repo", "/repo", "repository")
	verif := fs.String("verif", "/verif", "verification directory")
	tierS := fs.String("tier", "quick", "quick | thorough")
	only := fs.String("only", "", "run only this harness")
	workers := fs.Int("workers", 16, "parallel workers")
	fs.Parse(args)
	if fs.NArg() < 1 {
		fmt.Fprintln(os.Stderr, "usage: symgo check [flags] <property>")
		return 2
	}
	prop := fs.Arg(0)
	if t := os.Getenv("VERIF_TIER"); t != "" {
		*tierS = t
	}
	tier := 0
	if *tierS == "thorough" {
		tier = 1
	}
	seed := int64(1)
	if s := os.Getenv("VERIF_SEED"); s != "" {
		if v, err := strconv.ParseInt(s, 10, 64); err == nil {
			seed = v
		}
	}
	t0 := time.Now()
	evPath := filepath.Join(*verif, "evidence", prop+".json")
	os.MkdirAll(filepath.Dir(evPath), 0o755)

	inconclusive := func(why string) int {
		fmt.Printf("INCONCLUSIVE property=%s %s\n", prop, why)
		ev := evidence{PropertyID: prop, Tier: *tierS, Seed: seed, Level: "other",
			Coverage: map[string]interface{}{"explanation": "check was INCONCLUSIVE: " + why, "evaluations": 0, "distinct_nontrivial": 0},
			WallS:    time.Since(t0).Seconds(),
		}
		b, _ := json.MarshalIndent(ev, "", " ")
		os.WriteFile(evPath, b, 0o644)
		return 2
	}

	var cfgAll map[string]PropCfg
	cb, err := os.ReadFile(filepath.Join(*verif, "checks.json"))
	if err != nil {
		return inconclusive("cannot read checks.json: " + err.Error())
	}
	if err := json.Unmarshal(cb, &cfgAll); err != nil {
		return inconclusive("bad checks.json: " + err.Error())
	}
	cfg, ok := cfgAll[prop]
	if !ok {
		return inconclusive("no check configured for this property")
	}
	kfs, err := readKF(filepath.Join(*verif, "known_findings.txt"))
	if err != nil {
		return inconclusive("cannot read known findings: " + err.Error())
	}
	kfOpen := map[string]bool{}
	kfWhat := map[string]string{}
	for _, k := range kfs {
		if k.Status == "open" && k.Property == prop && k.ID != "" {
			kfOpen[k.ID] = true
			kfWhat[k.ID] = k.What
		}
	}

	p, err := exec.Load(*repo, cfg.Pkg, filepath.Join(*verif, cfg.HDir))
	if err != nil {
		return inconclusive("cannot load/type-check the tree with the harness: " + clip(err.Error(), 600))
	}
	loadS := time.Since(t0).Seconds()

	type hres struct {
		cfg HarnessCfg
		st  *exec.Stats
		sec float64
	}
	var results []hres
	var problems []string
	crossRuns, crossDisagree := 0, 0
	crossIncomplete := []string{}
	progs := map[string]*exec.Program{}
	progOf := map[string]*exec.Program{}
	harnesses := cfg.Harnesses
	if p.Harness["vpH_selftest"] != nil && *only == "" {
		// the engine self-test runs with every check of this package; its sampled paths are
		// compared with native runs like any other harness (a disagreement is INCONCLUSIVE)
		harnesses = append([]HarnessCfg{{Name: "vpH_selftest", Native: true, NoCross: true, selftest: true}}, harnesses...)
	}
	for _, h := range harnesses {
		if *only != "" && h.Name != *only {
			continue
		}
		if h.Tier > tier {
			continue
		}
		hp := p
		if h.Pkg != "" {
			key := h.Pkg + "|" + h.HDir
			if progs[key] == nil {
				q, err := exec.Load(*repo, h.Pkg, filepath.Join(*verif, h.HDir))
				if err != nil {
					problems = append(problems, "cannot load/type-check "+h.Pkg+" with its harness: "+clip(err.Error(), 500))
					continue
				}
				progs[key] = q
			}
			hp = progs[key]
			h.Native = false
		}
		progOf[h.Name] = hp
		fn := hp.Harness[h.Name]
		if fn == nil {
			why := "harness " + h.Name + " not found"
			for f, e := range hp.Dropped {
				why = fmt.Sprintf("harness %s unavailable: harness file %s no longer type-checks against the tree (%s)", h.Name, f, clip(e, 300))
			}
			problems = append(problems, why)
			continue
		}
		solver := h.Solver
		if solver == "" {
			solver = "z3"
		}
		nw := h.Workers
		if nw == 0 {
			nw = *workers
		}
		to := h.Timeout
		if to == 0 {
			to = 20000
			if tier == 1 {
				to = 120000
			}
		}
		x := &exec.Explorer{P: hp, Harness: fn, NWorker: nw, Solver: solver, Timeout: to, Tier: tier, Seed: seed,
			KFOpen: kfOpen, Reverse: h.Reverse, NCases: 2, MaxStep: h.MaxSteps, Progress: os.Getenv("VERIF_PROGRESS") != ""}
		if h.selftest {
			x.NCases = 4
		}
		if h.Cases > 0 {
			x.NCases = h.Cases
		}
		budget := h.MaxSecs
		if budget == 0 {
			budget = 900 // quick: nothing may run away (a changed tree can blow a harness up)
			if tier == 1 {
				budget = 3 * 3600
			}
		}
		x.Deadline = time.Now().Add(time.Duration(budget) * time.Second)
		t1 := time.Now()
		st, err := x.Run()
		if err != nil {
			problems = append(problems, h.Name+": "+err.Error())
			continue
		}
		results = append(results, hres{h, st, time.Since(t1).Seconds()})
		// thorough tier: the whole harness is decided again by a second solver; the two
		// explorations must agree on paths, completed paths and violated labels
		if tier == 1 && !h.NoCross && *only == "" || os.Getenv("VERIF_CROSS") != "" {
			other := "z3"
			if solver == "z3" {
				other = "cvc5"
			}
			x2 := &exec.Explorer{P: hp, Harness: fn, NWorker: nw, Solver: other, Timeout: to, Tier: tier, Seed: seed,
				KFOpen: kfOpen, Reverse: h.Reverse, NCases: 0, MaxStep: h.MaxSteps, Progress: os.Getenv("VERIF_PROGRESS") != ""}
			if h.MaxSecs > 0 {
				x2.Deadline = time.Now().Add(time.Duration(2*h.MaxSecs) * time.Second)
			}
			st2, err := x2.Run()
			crossRuns++
			if err != nil {
				problems = append(problems, h.Name+": cross-solver run: "+err.Error())
			} else if st2.QUnknown > 0 || len(st2.Inconclusive) > 0 {
				// the second solver left queries undecided (timeouts): the re-decision is incomplete,
				// which is not a disagreement; the first solver's verdict stands and the gap is recorded
				crossIncomplete = append(crossIncomplete, fmt.Sprintf("%s: re-decision by %s incomplete: %d unknown answers, %d of %d paths completed (first: %s)",
					h.Name, other, st2.QUnknown, st2.PathsOK, st2.Paths, clip(strings.Join(st2.Inconclusive, "; "), 200)))
			} else if st2.Paths != st.Paths || st2.PathsOK != st.PathsOK || labelSet(st2) != labelSet(st) {
				crossDisagree++
				problems = append(problems, fmt.Sprintf("%s: cross-solver disagreement: %s paths=%d ok=%d violations=%s vs %s paths=%d ok=%d violations=%s",
					h.Name, solver, st.Paths, st.PathsOK, labelSet(st), other, st2.Paths, st2.PathsOK, labelSet(st2)))
			}
			fmt.Fprintf(os.Stderr, "  %-34s re-decided by %s: paths=%d ok=%d queries=%d\n", h.Name, other, st2.Paths, st2.PathsOK, st2.Queries)
		}
		fmt.Fprintf(os.Stderr, "  %-34s paths=%d ok=%d queries=%d (unsat %d) violations=%d inconclusive=%d %.1fs\n",
			h.Name, st.Paths, st.PathsOK, st.Queries, st.QUnsat, len(st.Violations), len(st.Inconclusive), time.Since(t1).Seconds())
	}

	// aggregate
	states, transitions, obligations, discharged, queries := 0, 0, 0, 0, 0
	var solverMs int64
	fns := map[string]bool{}
	reachAll := map[string]int{}
	perHarness := []map[string]interface{}{}
	var samples []interface{}
	kfSeen := map[string]int{}
	var viols []struct {
		h HarnessCfg
		v *exec.Violation
	}
	var natCases []nativeCase
	var natExpect []exec.PathCase
	for _, r := range results {
		st := r.st
		states += st.Paths
		transitions += st.Decisions
		// an assertion instance is discharged either by an unsat answer to PC∧¬assert or by
		// evaluating to literal true on a path whose condition the solver decided
		obligations += st.Asserts + st.AssertsConst
		discharged += st.Discharged + st.AssertsConst
		queries += st.Queries
		solverMs += st.SolverTime.Milliseconds()
		for f := range st.Fns {
			fns[f] = true
		}
		for k, v := range st.Reach {
			reachAll[r.cfg.Name+":"+k] = v
		}
		for _, m := range st.Inconclusive {
			problems = append(problems, r.cfg.Name+": "+m)
		}
		need := r.cfg.Reach
		if len(need) == 0 {
			need = []string{"end"}
		}
		for _, lbl := range need {
			if st.Reach[lbl] == 0 && len(st.Violations) == 0 {
				problems = append(problems, fmt.Sprintf("%s: VACUOUS, no path reaches label %q", r.cfg.Name, lbl))
			}
		}
		perHarness = append(perHarness, map[string]interface{}{
			"harness": r.cfg.Name, "paths": st.Paths, "paths_ok": st.PathsOK, "paths_assume_killed": st.PathsAssume,
			"decisions": st.Decisions, "forks": st.Forks, "merged_regions": st.Merges, "solver": firstNonEmpty(r.cfg.Solver, "z3"),
			"queries": st.Queries, "sat": st.QSat, "unsat": st.QUnsat, "unknown": st.QUnknown, "solver_ms": st.SolverTime.Milliseconds(),
			"assertions_posed": st.Asserts, "assertions_discharged": st.Discharged, "assertions_trivially_true": st.AssertsConst,
			"wall_s": r.sec, "instructions": st.Steps, "max_depth": st.MaxDepth, "native_replay": r.cfg.Native,
		})
		for i, s := range st.Samples {
			if i < 2 {
				samples = append(samples, map[string]interface{}{"harness": r.cfg.Name, "path": s})
			}
		}
		for k, n := range st.KnownFindings {
			kfSeen[k] += n
		}
		for _, v := range st.Violations {
			viols = append(viols, struct {
				h HarnessCfg
				v *exec.Violation
			}{r.cfg, v})
		}
		if r.cfg.Native {
			for _, c := range st.Cases {
				natCases = append(natCases, nativeCase{Harness: r.cfg.Name, Tier: tier, Inputs: c.Inputs})
				natExpect = append(natExpect, c)
			}
		}
	}

	// violations -> replay files (+ native cases)
	os.MkdirAll(filepath.Join(*verif, "replay"), 0o755)
	if *only == "" {
		// replay files of earlier runs of this property are stale
		old, _ := filepath.Glob(filepath.Join(*verif, "replay", prop+"_*.json"))
		for _, f := range old {
			os.Remove(f)
		}
	}
	type pending struct {
		path   string
		rf     replayFile
		kf     string
		natIdx int
		key    string
	}
	var pend []pending
	// one counterexample per (harness, label, known-finding) is reported; up to four candidates,
	// spread over the violating paths found, are kept, because a counterexample whose native twin
	// depends on the native scheduler (a select with several ready cases) need not reproduce
	// while another one does
	byKey := map[string][]int{}
	seamNoted := map[string]bool{}
	for i, hv := range viols {
		if hv.h.SeamPanic && hv.v.Label == "no-panic" {
			if !seamNoted[hv.h.Name] {
				seamNoted[hv.h.Name] = true
				problems = append(problems, fmt.Sprintf("%s: panic while driving an unexported seam with stand-in arguments (%s): the stand-ins no longer fit the code; not a verdict", hv.h.Name, clip(hv.v.Msg, 200)))
			}
			continue
		}
		key := hv.h.Name + "|" + hv.v.Label + "|" + hv.v.KF
		byKey[key] = append(byKey[key], i)
	}
	keep := map[int]bool{}
	for _, idx := range byKey {
		n := len(idx)
		for _, k := range []int{0, n / 3, 2 * n / 3, n - 1} {
			keep[idx[k]] = true
		}
	}
	for i, hv := range viols {
		key := hv.h.Name + "|" + hv.v.Label + "|" + hv.v.KF
		if !keep[i] {
			continue
		}
		rpkg, rhdir := cfg.Pkg, cfg.HDir
		if hv.h.Pkg != "" {
			rpkg, rhdir = hv.h.Pkg, hv.h.HDir
		}
		rf := replayFile{Property: prop, Harness: hv.h.Name, Pkg: rpkg, HDir: rhdir, Tier: tier, Label: hv.v.Label,
			Msg: hv.v.Msg, Where: hv.v.Where, Native: hv.h.Native, Reverse: hv.h.Reverse, Inputs: hv.v.Inputs}
		path := filepath.Join(*verif, "replay", fmt.Sprintf("%s_%s_%d.json", prop, hv.h.Name, i))
		b, _ := json.MarshalIndent(rf, "", " ")
		os.WriteFile(path, b, 0o644)
		pd := pending{path: path, rf: rf, kf: hv.v.KF, natIdx: -1, key: key}
		if hv.h.Native && !engineOnlyLabel(hv.v.Label) {
			pd.natIdx = len(natCases)
			natCases = append(natCases, nativeCase{Label: hv.v.Label, Harness: hv.h.Name, Tier: tier, Inputs: hv.v.Inputs})
		}
		pend = append(pend, pd)
	}

	// native run: sampled paths must agree, counterexamples must reproduce
	validated := 0
	var diffViol []int
	diffHarness := map[string]bool{}
	for _, h := range cfg.Harnesses {
		if h.Differential {
			diffHarness[h.Name] = true
		}
	}
	var natRes []nativeResult
	if len(natCases) > 0 {
		res, out, err := nativeRun(p, natCases)
		if err != nil {
			problems = append(problems, "native replay: "+err.Error()+": "+clip(out, 800))
		} else {
			natRes = res
			for i, exp := range natExpect {
				got := res[i]
				if diffHarness[natCases[i].Harness] && strings.HasPrefix(got.End, "assert:") {
					diffViol = append(diffViol, i)
					continue
				}
				if got.End != "ok" || strings.Join(got.Reach, ",") != strings.Join(exp.Reach, ",") || strings.Join(got.Obs, "|") != strings.Join(exp.Obs, "|") {
					problems = append(problems, fmt.Sprintf("translator validation: native run of a sampled path of %s differs: native end=%s reach=%v obs=%v, engine reach=%v obs=%v inputs=%v",
						natCases[i].Harness, got.End, got.Reach, got.Obs, exp.Reach, exp.Obs, exp.Inputs))
				} else {
					validated++
				}
			}
		}
	}

	exit := 0
	nViol := 0
	var lines []string
	kfPrinted := map[string]bool{}
	keyDone := map[string]bool{}   // a candidate of this key was confirmed and reported
	keyFail := map[string]string{} // first non-reproduction message per key
	for _, pd := range pend {
		if keyDone[pd.key] {
			os.Remove(pd.path)
			continue
		}
		confirmed := false
		how := "engine-replayed only (harness uses engine-side stubs)"
		if pd.natIdx >= 0 {
			if natRes == nil {
				continue
			}
			got := natRes[pd.natIdx]
			want := "assert:" + pd.rf.Label
			if pd.rf.Label == "no-panic" {
				confirmed = strings.HasPrefix(got.End, "panic:")
			} else {
				confirmed = got.End == want
			}
			how = "reproduced natively (go test -overlay): " + got.End
			if !confirmed {
				if keyFail[pd.key] == "" {
					keyFail[pd.key] = fmt.Sprintf("counterexample of %s (%s) does not reproduce natively (native end=%s): encoding or harness mismatch, replay=%s",
						pd.rf.Harness, pd.rf.Label, got.End, pd.path)
				}
				continue
			}
		} else {
			rp := p
			if q := progOf[pd.rf.Harness]; q != nil {
				rp = q
			}
			confirmed = concreteReplay(rp, pd.rf)
			if !confirmed {
				if keyFail[pd.key] == "" {
					keyFail[pd.key] = fmt.Sprintf("counterexample of %s (%s) does not reproduce in concrete-engine mode, replay=%s", pd.rf.Harness, pd.rf.Label, pd.path)
				}
				continue
			}
		}
		keyDone[pd.key] = true
		if pd.kf != "" {
			if !kfPrinted[pd.kf] {
				kfPrinted[pd.kf] = true
				lines = append(lines, fmt.Sprintf("KNOWN-FINDING: property=%s id=%s %s [%s; replay=%s]", prop, pd.kf, kfWhat[pd.kf], how, pd.path))
			}
			continue
		}
		nViol++
		lines = append(lines, fmt.Sprintf("VIOLATION property=%s replay=%s", prop, pd.path))
		lines = append(lines, fmt.Sprintf("  harness=%s label=%s %s %s inputs=%v", pd.rf.Harness, pd.rf.Label, pd.rf.Msg, how, compactInputs(pd.rf.Inputs)))
		exit = 1
	}
	for k, msg := range keyFail {
		if !keyDone[k] {
			problems = append(problems, msg)
		}
	}
	// differential harnesses: the real code disagreed with the reference model on a path's witness
	diffSeen := map[string]bool{}
	for _, i := range diffViol {
		c, got := natCases[i], natRes[i]
		label := strings.TrimPrefix(got.End, "assert:")
		key := c.Harness + "|" + label
		if diffSeen[key] {
			continue
		}
		diffSeen[key] = true
		rf := replayFile{Property: prop, Harness: c.Harness, Pkg: cfg.Pkg, HDir: cfg.HDir, Tier: tier, Label: label,
			Msg: "the real code disagrees with the reference model on this path's witness", Native: true, Inputs: c.Inputs}
		path := filepath.Join(*verif, "replay", fmt.Sprintf("%s_%s_d%d.json", prop, c.Harness, i))
		b, _ := json.MarshalIndent(rf, "", " ")
		os.WriteFile(path, b, 0o644)
		nViol++
		lines = append(lines, fmt.Sprintf("VIOLATION property=%s replay=%s", prop, path))
		lines = append(lines, fmt.Sprintf("  harness=%s label=%s observed natively (go test -overlay) on the witness of a completed model path inputs=%v", c.Harness, label, compactInputs(c.Inputs)))
		exit = 1
	}
	for _, l := range lines {
		fmt.Println(l)
	}
	if len(problems) > 0 && exit == 0 {
		exit = 2
	}

	// evidence
	var fnList []string
	for f := range fns {
		fnList = append(fnList, f)
	}
	sort.Strings(fnList)
	if len(samples) == 0 {
		samples = append(samples, map[string]interface{}{"note": "no multi-decision path in this run"})
	}
	diffInfo := map[string]interface{}{}
	for name := range diffHarness {
		nrun := 0
		for i := range natExpect {
			if natCases[i].Harness == name {
				nrun++
			}
		}
		diffInfo[name] = map[string]interface{}{
			"what":                     "the engine explores the reference model only; each completed model path yields one solver-produced witness that is executed natively on the real code next to the model; agreement is asserted natively (concrete, one witness per path: not a solver verdict over all values of the real code)",
			"witnesses_run_natively":   nrun,
			"disagreements_with_model": len(diffViol),
		}
	}
	cov := map[string]interface{}{
		"states":                        states,
		"transitions":                   transitions,
		"traces_validated_against_impl": validated,
		"samples":                       samples,
		"obligations":                   obligations,
		"discharged":                    discharged,
		"solver_queries":                queries,
		"solver_ms":                     solverMs,
		"functions_encoded":             fnList,
		"harnesses":                     perHarness,
		"bounds":                        cfg.Bounds,
		"outside_bounds":                cfg.Outside,
		"stubs":                         cfg.Stubs,
		"reach_labels":                  reachAll,
		"known_findings_hit":            kfSeen,
		"problems":                      problems,
		"differential":                  diffInfo,
		"cross_solver_runs":             crossRuns,
		"cross_solver_disagreements":    crossDisagree,
		"cross_solver_incomplete":       crossIncomplete,
		"load_s":                        loadS,
		"exhaustive":                    len(problems) == 0,
		"rule":                          "states = completed symbolic paths (each decided for all values by the solver); transitions = decision edges; obligations = assertion queries PC∧¬assert posed, discharged = those answered unsat",
	}
	if cfg.Assumptions == nil {
		cfg.Assumptions = []string{}
	}
	ev := evidence{PropertyID: prop, Tier: *tierS, Seed: seed, Level: "model_checking", Coverage: cov,
		Assumptions: cfg.Assumptions, WallS: time.Since(t0).Seconds(), Violations: nViol}
	if states == 0 || transitions == 0 {
		ev.Level = "other"
		cov["explanation"] = "no path completed; see problems"
	}
	b, _ := json.MarshalIndent(ev, "", " ")
	os.WriteFile(evPath, b, 0o644)

	for i, pr := range problems {
		if i >= 5 {
			fmt.Printf("INCONCLUSIVE property=%s ... and %d more problems (see evidence.coverage.problems)\n", prop, len(problems)-i)
			break
		}
		fmt.Printf("INCONCLUSIVE property=%s %s\n", prop, clip(pr, 700))
	}
	if exit == 0 {
		fmt.Printf("PASS property=%s tier=%s paths=%d obligations=%d discharged=%d queries=%d validated_natively=%d wall=%.1fs\n",
			prop, *tierS, states, obligations, discharged, queries, validated, time.Since(t0).Seconds())
	}
	return exit
}

// engineOnlyLabel: assertions about engine-side monitors (lockset, critical sections,
// blocking) have no native counterpart; their counterexamples are replayed in the engine.
func engineOnlyLabel(l string) bool {
	return l == "lockset" || strings.HasPrefix(l, "blocked:") || strings.Contains(l, "critical-section")
}

func labelSet(st *exec.Stats) string {
	m := map[string]bool{}
	for _, v := range st.Violations {
		m[v.Label+"|"+v.KF] = true
	}
	var ks []string
	for k := range m {
		ks = append(ks, k)
	}
	sort.Strings(ks)
	return "[" + strings.Join(ks, ",") + "]"
}

func firstNonEmpty(a, b string) string {
	if a != "" {
		return a
	}
	return b
}

func clip(s string, n int) string {
	if len(s) > n {
		return s[:n] + "..."
	}
	return s
}

func compactInputs(in map[string]uint64) string {
	var ks []string
	for k := range in {
		ks = append(ks, k)
	}
	sort.Strings(ks)
	var sb strings.Builder
	for i, k := range ks {
		if i > 24 {
			sb.WriteString(" ...")
			break
		}
		fmt.Fprintf(&sb, " %s=%d", k, int64(in[k]))
	}
	return sb.String()
}

// concreteReplay re-runs a harness in the engine with fixed inputs and reports
// whether the recorded assertion fails again.
func concreteReplay(p *exec.Program, rf replayFile) bool {
	fn := p.Harness[rf.Harness]
	if fn == nil {
		return false
	}
	end, label := exec.RunConcrete(p, fn, rf.Inputs, rf.Tier, rf.Reverse)
	if rf.Label == "no-panic" {
		return end == "violation" && label == "no-panic"
	}
	return end == "violation" && label == rf.Label
}

func cmdReplay(args []string) int {
	fs := flag.NewFlagSet("replay", flag.ExitOnError)
	repo := fs.String("repo", "/repo", "repository")
	verif := fs.String("verif", "/verif", "verification directory")
	fs.Parse(args)
	if fs.NArg() < 1 {
		fmt.Fprintln(os.Stderr, "usage: symgo replay <file>")
		return 2
	}
	b, err := os.ReadFile(fs.Arg(0))
	if err != nil {
		fmt.Fprintln(os.Stderr, err)
		return 2
	}
	var rf replayFile
	if err := json.Unmarshal(b, &rf); err != nil {
		fmt.Fprintln(os.Stderr, err)
		return 2
	}
	p, err := exec.Load(*repo, rf.Pkg, filepath.Join(*verif, rf.HDir))
	if err != nil {
		fmt.Println("INCONCLUSIVE cannot load:", err)
		return 2
	}
	if rf.Native {
		res, out, err := nativeRun(p, []nativeCase{{Label: rf.Label, Harness: rf.Harness, Tier: rf.Tier, Inputs: rf.Inputs}})
		if err != nil {
			fmt.Println("INCONCLUSIVE native replay failed:", err, clip(out, 1000))
			return 2
		}
		fmt.Printf("native replay of %s: %s (recorded label %s)\n", rf.Harness, res[0].End, rf.Label)
		if res[0].End == "assert:"+rf.Label || (rf.Label == "no-panic" && strings.HasPrefix(res[0].End, "panic:")) {
			fmt.Printf("VIOLATION property=%s replay=%s\n", rf.Property, fs.Arg(0))
			return 1
		}
		return 0
	}
	if concreteReplay(p, rf) {
		fmt.Printf("VIOLATION property=%s replay=%s (engine-replayed)\n", rf.Property, fs.Arg(0))
		return 1
	}
	fmt.Println("replay: assertion holds on the current tree")
	return 0
}

// nativeEnv is the environment of the native replay build: the repository's
// own toolchain selection (GOTOOLCHAIN as inherited, default auto -> go.mod's
// toolchain line, which is cached offline), module mode as in the baseline.
func nativeEnv() []string {
	var env []string
	for _, kv := range os.Environ() {
		if strings.HasPrefix(kv, "GOSUMDB=") || strings.HasPrefix(kv, "GOFLAGS=") || strings.HasPrefix(kv, "GOTOOLCHAIN=") {
			continue
		}
		env = append(env, kv)
	}
	tc := os.Getenv("VERIF_NATIVE_GOTOOLCHAIN")
	if tc == "" {
		tc = "auto"
	}
	return append(env, "GOFLAGS=-mod=mod", "GOPROXY=off", "GOTOOLCHAIN="+tc)
}
