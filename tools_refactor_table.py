#!/usr/bin/env python3
"""Parses refactorings/last_matrix.log into refactorings/README.md."""
import re, sys, os
log=sys.argv[1]
res={}; cur=None
for line in open(log):
    line=line.rstrip('\n')
    m=re.match(r'^#### (\S+)',line)
    if m: cur=m.group(1); res[cur]={"checks":[],"why":[]}; continue
    if cur is None: continue
    m=re.match(r'^== (\S+) exit=(\d+)',line)
    if m: res[cur]["checks"].append((m.group(1),int(m.group(2)))); continue
    if line.startswith(('INCONCLUSIVE','VIOLATION','  harness=')) and len(res[cur]["why"])<2:
        w=re.sub(r'\[at [^\]]*\]','',line)
        res[cur]["why"].append(w[:200])
rows=[]; nfa=0
for n in sorted(res):
    note=open(f'/verif/refactorings/{n}/notes.md').read() if os.path.exists(f'/verif/refactorings/{n}/notes.md') else ''
    first=[l.strip('# ').strip() for l in note.splitlines() if l.strip()]
    what=(first[0] if first else '')[:160].replace('|','/')
    out='; '.join(f"{c}: "+{0:'pass',1:'VIOLATION (false alarm)',2:'INCONCLUSIVE'}.get(rc,str(rc)) for c,rc in res[n]["checks"])
    if any(rc==1 for _,rc in res[n]["checks"]): nfa+=1
    why=' / '.join(res[n]["why"]).replace('|','/')
    rows.append(f"| {n} | {what} | {out} | {why[:260]} |")
with open('/verif/refactorings/README.md','w') as f:
    f.write("# Behaviour-preserving refactorings (the checks must not raise an alarm)\n\n")
    f.write("Each directory holds a substantial refactoring of high-moctane/mocrelay written by a fresh sub-agent that saw only the text of one property and its own scratch worktree (nothing from /verif), with the instruction to change the internal mechanism noticeably while keeping the property; each compiles and keeps the existing suite green, and the authors compared old and new code differentially. `tools_refactor_matrix.sh` applies each in a scratch worktree and runs the quick checks of the properties its area touches. A refactoring keeps the property, so VIOLATION would be a false alarm; pass and INCONCLUSIVE (a harness could not follow the new code and says so) are acceptable outcomes.\n\n")
    f.write("The FIRST run (first_run.log) reported 7 of the 48 as VIOLATION: C18-r2, C18-r3, C20-r1, C20-r2, C20-r3, C12-r2, C15-r2. Each was traced to a harness that prescribed a mechanism rather than the property and corrected (DESIGN.md §0.6). last_matrix.log holds the first run followed by the re-runs made after the corrections; the table shows the latest outcome of every refactoring.\n\n")
    f.write(f"Latest outcomes: {len(rows)} refactorings, {nfa} reported as VIOLATION.\n\n")
    f.write("| refactoring | what (first line of the author's notes) | outcome per check | first reason given |\n|---|---|---|---|\n")
    f.write('\n'.join(rows)+'\n')
print(f"{len(rows)} refactorings, {nfa} false alarms")
