package mocrelay

func vpH_dbg_hex2() {
	s := vpString("s", 2)
	got := validHexString(s)
	vpAssert(got == vpAllBytesIn(s, "0123456789abcdef"), "dbg.hex2")
	vpReach("end")
}
