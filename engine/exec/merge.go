package exec

import (
	"go/token"
	"go/types"

	"golang.org/x/tools/go/ssa"
	"symgo/smt"
)

// If-conversion of side-effect-free branch regions.
//
// go/ssa compiles `a && b`, `a || b` and compound `if` conditions into small
// graphs of blocks that only compute and branch. Forking at each of those
// branches multiplies paths (2^n for n characters of a validator). Instead, at
// an If on a symbolic condition the executor collects the single-entry region
// of *pure* blocks below it, evaluates it once with edge guards, merges phi
// values with ite, and only decides which *exit block* is reached. If an
// instruction in the region could panic or would need a decision of its own,
// the attempt is abandoned and the ordinary fork happens.

type specAbort struct{}

const maxMergeBlocks = 48

func pureInstr(in ssa.Instruction) bool {
	switch in := in.(type) {
	case *ssa.DebugRef, *ssa.Phi, *ssa.If, *ssa.Jump:
		return true
	case *ssa.BinOp:
		switch in.Op {
		case token.QUO, token.REM:
			return false
		}
		return true
	case *ssa.UnOp:
		return in.Op != token.ARROW
	case *ssa.Convert:
		_, _, a := intWidth(in.X.Type())
		_, _, b := intWidth(in.Type())
		return a && b
	case *ssa.ChangeType, *ssa.Extract, *ssa.Field, *ssa.FieldAddr, *ssa.MakeInterface, *ssa.ChangeInterface:
		return true
	case *ssa.Index, *ssa.IndexAddr:
		return true
	case *ssa.TypeAssert:
		return in.CommaOk
	case *ssa.Call:
		if b, ok := in.Call.Value.(*ssa.Builtin); ok {
			switch b.Name() {
			case "len", "cap":
				return true
			}
		}
		return false
	}
	return false
}

func (w *Worker) pureBlock(b *ssa.BasicBlock) bool {
	if v, ok := w.pure[b]; ok {
		return v
	}
	r := true
	for _, in := range b.Instrs {
		if !pureInstr(in) {
			r = false
			break
		}
	}
	if w.pure == nil {
		w.pure = map[*ssa.BasicBlock]bool{}
	}
	w.pure[b] = r
	return r
}

// mergeValues builds ite(c, a, b) for interpreter values, or reports failure.
func (e *Exec) mergeValues(c *smt.Term, a, b Value) (Value, bool) {
	switch x := a.(type) {
	case *smt.Term:
		y, ok := b.(*smt.Term)
		if !ok || x.W != y.W {
			return nil, false
		}
		return e.c.Ite(c, x, y), true
	case Str:
		y, ok := b.(Str)
		if !ok || x.OpaqueID != 0 || y.OpaqueID != 0 || len(x.B) != len(y.B) {
			return nil, false
		}
		r := make([]*smt.Term, len(x.B))
		for i := range r {
			r[i] = e.c.Ite(c, x.B[i], y.B[i])
		}
		return Str{B: r}, true
	case *Value:
		if y, ok := b.(*Value); ok && x == y {
			return a, true
		}
	case *Map:
		if y, ok := b.(*Map); ok && x == y {
			return a, true
		}
	case Tuple:
		y, ok := b.(Tuple)
		if !ok || len(x) != len(y) {
			return nil, false
		}
		r := make(Tuple, len(x))
		for i := range x {
			v, ok := e.mergeValues(c, x[i], y[i])
			if !ok {
				return nil, false
			}
			r[i] = v
		}
		return r, true
	case Iface:
		y, ok := b.(Iface)
		if !ok {
			return nil, false
		}
		if x.T == nil && y.T == nil {
			return a, true
		}
		if x.T != nil && y.T != nil && types.Identical(x.T, y.T) {
			v, ok := e.mergeValues(c, x.V, y.V)
			if ok {
				return Iface{T: x.T, V: v}, true
			}
		}
	}
	return nil, false
}

type regionEdge struct {
	from  *ssa.BasicBlock
	guard *smt.Term
}

// tryMerge attempts if-conversion below the If terminating fr.block.
func (e *Exec) tryMerge(fr *frame, ifi *ssa.If, cond *smt.Term) (merged bool) {
	if e.noMerge || e.spec > 0 || e.lenient > 0 {
		return false
	}
	b0 := fr.block
	inR := map[*ssa.BasicBlock]bool{}
	var order []*ssa.BasicBlock
	// grow the region to a fixpoint
	cands := append([]*ssa.BasicBlock(nil), b0.Succs...)
	for changed := true; changed; {
		changed = false
		for _, x := range cands {
			if inR[x] || x == b0 || len(order) >= maxMergeBlocks {
				continue
			}
			ok := e.w.pureBlock(x)
			for _, p := range x.Preds {
				if p != b0 && !inR[p] {
					ok = false
					break
				}
			}
			if !ok {
				continue
			}
			inR[x] = true
			order = append(order, x)
			cands = append(cands, x.Succs...)
			changed = true
		}
	}
	if len(order) == 0 {
		return false
	}
	// a region block must not have b0 as successor-with-phi problems: fine, b0 is an exit.

	c := e.c
	exits := map[*ssa.BasicBlock][]regionEdge{}
	var exitOrder []*ssa.BasicBlock
	// phi value over incoming region edges
	phiValue := func(x *ssa.BasicBlock, phi *ssa.Phi, edges []regionEdge) Value {
		var val Value
		for i := len(edges) - 1; i >= 0; i-- {
			ed := edges[i]
			pi := -1
			for k, p := range x.Preds {
				if p == ed.from {
					pi = k
					break
				}
			}
			v := fr.get(phi.Edges[pi])
			if val == nil {
				val = v
				continue
			}
			m, ok := e.mergeValues(ed.guard, v, val)
			if !ok {
				panic(specAbort{})
			}
			val = m
		}
		return val
	}
	setPhis := func(x *ssa.BasicBlock, edges []regionEdge) {
		var phis []*ssa.Phi
		var vals []Value
		for _, instr := range x.Instrs {
			phi, ok := instr.(*ssa.Phi)
			if !ok {
				break
			}
			phis = append(phis, phi)
			vals = append(vals, phiValue(x, phi, edges))
		}
		for i, phi := range phis {
			fr.env[phi] = vals[i]
		}
	}
	speculate := func() (ok bool) {
		e.spec++
		defer func() {
			e.spec--
			if r := recover(); r != nil {
				if _, isAbort := r.(specAbort); isAbort {
					fr.block = b0
					ok = false
					return
				}
				panic(r)
			}
		}()

		guard := map[*ssa.BasicBlock]*smt.Term{b0: c.True}
		termCond := map[*ssa.BasicBlock]*smt.Term{b0: cond}
		edgeGuard := func(p, x *ssa.BasicBlock, succIdx int) *smt.Term {
			g := guard[p]
			if tc, isIf := termCond[p]; isIf {
				if succIdx == 0 {
					return c.And(g, tc)
				}
				return c.And(g, c.Not(tc))
			}
			return g
		}
		noteEdges := func(p *ssa.BasicBlock) {
			for i, s := range p.Succs {
				if inR[s] {
					continue
				}
				g := edgeGuard(p, s, i)
				if b, ok := g.ConstBool(); ok && !b {
					continue
				}
				if _, seen := exits[s]; !seen {
					exitOrder = append(exitOrder, s)
				}
				exits[s] = append(exits[s], regionEdge{p, g})
			}
		}
		noteEdges(b0)
		for _, x := range order {
			// incoming edges
			var in []regionEdge
			g := c.False
			for _, p := range x.Preds {
				if _, live := guard[p]; !live {
					continue
				}
				for i, s := range p.Succs {
					if s == x {
						eg := edgeGuard(p, x, i)
						if b, ok := eg.ConstBool(); ok && !b {
							continue
						}
						in = append(in, regionEdge{p, eg})
						g = c.Or(g, eg)
					}
				}
			}
			if b, ok := g.ConstBool(); ok && !b {
				continue // dead under the current path
			}
			guard[x] = g
			setPhis(x, in)
			for _, instr := range x.Instrs {
				switch instr := instr.(type) {
				case *ssa.Phi:
				case *ssa.If:
					termCond[x] = fr.get(instr.Cond).(*smt.Term)
				case *ssa.Jump:
				default:
					fr.curInstr = instr
					e.steps++
					e.visitInstr(fr, instr)
				}
			}
			noteEdges(x)
		}
		if len(exitOrder) == 0 {
			panic(specAbort{})
		}
		// the phis of every exit must be mergeable: check now, while aborting is possible
		for _, x := range exitOrder {
			for _, instr := range x.Instrs {
				phi, isPhi := instr.(*ssa.Phi)
				if !isPhi {
					break
				}
				phiValue(x, phi, exits[x])
			}
		}
		return true
	}
	if !speculate() {
		return false
	}
	// choose the exit block
	var target *ssa.BasicBlock
	switch len(exitOrder) {
	case 1:
		target = exitOrder[0]
	default:
		conds := make([]*smt.Term, len(exitOrder))
		for i, x := range exitOrder {
			g := c.False
			for _, ed := range exits[x] {
				g = c.Or(g, ed.guard)
			}
			conds[i] = g
		}
		k := e.decideN(conds, "merged branch")
		target = exitOrder[k]
	}
	// phis of the target over the region edges
	edges := exits[target]
	setPhis(target, edges)
	fr.prevBlock = edges[0].from
	fr.block = target
	fr.phisDone = true
	e.w.st.Merges++
	return true
}
