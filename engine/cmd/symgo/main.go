package main

import (
	"encoding/json"
	"flag"
	"fmt"
	"os"
	"runtime/pprof"
	"sort"
	"time"

	"symgo/exec"
)

func main() {
	if len(os.Args) < 2 {
		fmt.Fprintln(os.Stderr, "usage: symgo run|check ...")
		os.Exit(2)
	}
	switch os.Args[1] {
	case "run":
		os.Exit(cmdRun(os.Args[2:]))
	case "check":
		os.Exit(cmdCheck(os.Args[2:]))
	case "replay":
		os.Exit(cmdReplay(os.Args[2:]))
	default:
		fmt.Fprintln(os.Stderr, "unknown command", os.Args[1])
		os.Exit(2)
	}
}

func cmdRun(args []string) int {
	fs := flag.NewFlagSet("run", flag.ExitOnError)
	repo := fs.String("repo", "/repo", "repository")
	pkg := fs.String("pkg", ".", "package directory relative to the repository")
	hdir := fs.String("hdir", "/verif/harness/mocrelay", "harness directory")
	harness := fs.String("harness", "", "harness function (vpH_...)")
	workers := fs.Int("workers", 16, "parallel workers")
	solver := fs.String("solver", "z3", "z3 | z3-new | cvc5")
	timeout := fs.Int("timeout", 20000, "per-query timeout ms")
	tier := fs.Int("tier", 0, "0 quick, 1 thorough")
	trace := fs.Bool("trace", false, "trace instructions")
	maxsteps := fs.Int("maxsteps", 0, "instruction budget per path")
	nomerge := fs.Bool("nomerge", false, "disable if-conversion of pure branch regions")
	rev := fs.Bool("reverse-maps", false, "iterate maps in reverse insertion order")
	maxsecs := fs.Int("maxsecs", 300, "wall-clock budget (seconds)")
	cpuprof := fs.String("cpuprofile", "", "write a CPU profile")
	fs.Parse(args)
	t0 := time.Now()
	p, err := exec.Load(*repo, *pkg, *hdir)
	if err != nil {
		fmt.Fprintln(os.Stderr, "load:", err)
		return 2
	}
	fmt.Fprintf(os.Stderr, "loaded in %.1fs\n", time.Since(t0).Seconds())
	if *harness == "" {
		var names []string
		for n := range p.Harness {
			names = append(names, n)
		}
		sort.Strings(names)
		for _, n := range names {
			fmt.Println(n)
		}
		return 0
	}
	h := p.Harness[*harness]
	if h == nil {
		fmt.Fprintln(os.Stderr, "no such harness", *harness)
		return 2
	}
	x := &exec.Explorer{P: p, Harness: h, NWorker: *workers, Solver: *solver, Timeout: *timeout, Tier: *tier, Trace: *trace, MaxStep: *maxsteps, Reverse: *rev, NoMerge: *nomerge, Progress: true}
	if *cpuprof != "" {
		f, _ := os.Create(*cpuprof)
		pprof.StartCPUProfile(f)
		defer pprof.StopCPUProfile()
	}
	x.Deadline = time.Now().Add(time.Duration(*maxsecs) * time.Second)
	t1 := time.Now()
	st, err := x.Run()
	if err != nil {
		fmt.Fprintln(os.Stderr, "run:", err)
		return 2
	}
	el := time.Since(t1)
	out := map[string]interface{}{
		"harness": *harness, "paths": st.Paths, "ok": st.PathsOK, "assume_killed": st.PathsAssume, "blocked": st.PathsBlocked,
		"decisions": st.Decisions, "forks": st.Forks, "merges": st.Merges, "queries": st.Queries, "sat": st.QSat, "unsat": st.QUnsat, "unknown": st.QUnknown,
		"solver_ms": st.SolverTime.Milliseconds(), "asserts": st.Asserts, "asserts_const": st.AssertsConst, "discharged": st.Discharged,
		"wall_s": el.Seconds(), "steps": st.Steps, "inconclusive": st.Inconclusive, "reach": st.Reach, "nfns": len(st.Fns), "maxdepth": st.MaxDepth,
	}
	var vs []map[string]interface{}
	for _, v := range st.Violations {
		vs = append(vs, map[string]interface{}{"label": v.Label, "msg": v.Msg, "inputs": v.Inputs, "kf": v.KF, "where": v.Where})
	}
	out["violations"] = vs
	b, _ := json.MarshalIndent(out, "", " ")
	fmt.Println(string(b))
	if len(st.Violations) > 0 {
		return 1
	}
	if len(st.Inconclusive) > 0 {
		return 2
	}
	return 0
}
