package mocrelay

func init() {
	vpHarnesses["vpH_C04_chains"] = vpH_C04_chains
	vpHarnesses["vpH_C05_chains"] = vpH_C05_chains
}

// Longer histories of one author built from three moves only, so that chains of deletion
// requests (requests naming requests, several requests for one target, a request naming
// its target twice, requests leaving by eviction or by being deleted themselves, targets
// offered again afterwards) are covered to depth 5: at step i the event is a new regular
// event, one of the i earlier events offered again, a deletion request naming an earlier
// event by id, or one naming it twice (bare and with a relay hint). created_at is the
// arrival index, increasing or decreasing (free choice); capacity is 5 (no eviction) or 3.
// Every transition of the real EventCache is checked against the step specification
// (same oracle as the symbolic 2/3-step histories: specStep).
func vpH_C04_chains() { vpRunChains("C04") }
func vpH_C05_chains() { vpRunChains("C05") }

func vpRunChains(P string) {
	const n = 5
	capacity := n
	if vpChoice("cap", 2) == 1 {
		capacity = 3
	}
	decreasing := vpChoice("order", 2) == 1
	c := NewEventCache(capacity)
	all := []*ReqFilter{{}}
	var evs []*Event
	prev := int64(0)
	for i := 0; i < n; i++ {
		at := vpInt64("at") // any strictly increasing (resp. decreasing) sequence of timestamps
		if i > 0 && decreasing {
			vpAssume(at < prev)
		} else if i > 0 {
			vpAssume(at > prev)
		}
		prev = at
		id := string(rune('0' + i))
		var e *Event
		k := vpChoice("move", 3*i+1)
		switch {
		case k == 0:
			e = &Event{ID: id, Pubkey: "A", Kind: 1, CreatedAt: at, Tags: []Tag{}}
		case k <= i:
			e = evs[k-1]
		case k <= 2*i:
			e = &Event{ID: id, Pubkey: "A", Kind: 5, CreatedAt: at, Tags: []Tag{{"e", evs[k-i-1].ID}}}
		default:
			t := evs[k-2*i-1].ID
			e = &Event{ID: id, Pubkey: "A", Kind: 5, CreatedAt: at, Tags: []Tag{{"e", t}, {"e", t, "wss://relay.example"}}}
		}
		evs = append(evs, e)
		before := c.Find(all)
		flag := c.Add(e)
		after := c.Find(all)
		specStep(P+".chains", before, e, flag, after, int64(capacity), c.Len())
		vpNoteBool("flag", flag)
	}
	vpReach("end")
}
