package mocrelay

func vpH_dbg_glob() {
	k := vpChoice("class", 3)
	vpNoteInt64("kind", vpClsKind[k])
	vpAssert(vpClsKind[3] == 20000, "dbg.kind")
	vpReach("end")
}
