package mocrelay

import (
	"context"
	"errors"
	"fmt"
	"net/http"
	"net/http/httptest"
	"strings"
	"sync/atomic"
	"time"

	"github.com/coder/websocket"
)

func init() {
	vpHarnesses["vpH_C13_deadline"] = vpH_C13_deadline
	vpHarnesses["vpH_C13_router_cleanup"] = vpH_C13_router_cleanup
	vpHarnesses["vpH_C13_middleware_end"] = vpH_C13_middleware_end
}

// ---------------------------------------------------------------------------
// Clause 3: over WebSocket every write carries the configured send timeout as
// its deadline, whatever the other relay options are.
//
// Engine: context.WithTimeout and (*websocket.Conn).Write/Ping are stubs; the
// options are free durations; the assertion is about the context handed to
// Write. Native replay: a real relay over httptest with a client that never
// reads; the session must end within a few send timeouts.

type vpDeadlineCtx struct {
	context.Context
	timeout time.Duration
}

func vpH_C13_deadline() {
	send := time.Duration(vpInt64("SendTimeout"))
	ping := time.Duration(vpInt64("PingDuration"))
	vpAssume(send > 0)
	if !vpSymbolic() {
		vpNativeStalledPeer(ping)
		vpReach("end")
		return
	}
	var writeCtx, pingCtx context.Context
	vpStub("context.WithTimeout", func(parent context.Context, d time.Duration) (context.Context, context.CancelFunc) {
		return &vpDeadlineCtx{parent, d}, func() {}
	})
	vpStub("(*github.com/coder/websocket.Conn).Write", func(c *websocket.Conn, ctx context.Context, typ websocket.MessageType, p []byte) error {
		writeCtx = ctx
		return nil
	})
	vpStub("(*github.com/coder/websocket.Conn).Ping", func(c *websocket.Conn, ctx context.Context) error {
		pingCtx = ctx
		return nil
	})
	relay := NewRelay(nil, &RelayOption{
		SendTimeout: send, PingDuration: ping,
		RecvRateLimitRate: 10, RecvRateLimitBurst: int(vpInt64("burst")), MaxMessageLength: vpInt64("maxlen"),
	})
	err := relay.sendMsgWithTimeout(context.Background(), nil, []byte("x"))
	vpAssert(err == nil, "C13.write-error-free")
	d, ok := writeCtx.(*vpDeadlineCtx)
	vpAssert(ok, "C13.write-deadline")
	if ok {
		vpAssert(d.timeout == send, "C13.write-deadline-is-send-timeout")
	}
	// pings are only sent when PingDuration != 0; then they carry the deadline as well
	if ping > 0 {
		vpAssert(relay.sendPingWithTimeout(context.Background(), nil) == nil, "C13.ping-error-free")
		pd, ok := pingCtx.(*vpDeadlineCtx)
		vpAssert(ok && pd.timeout == send, "C13.ping-deadline")
	}
	vpReach("end")
}

// vpNativeStalledPeer: real relay, real WebSocket, peer that stops reading.
func vpNativeStalledPeer(ping time.Duration) {
	if ping < 0 {
		ping = 0
	} else if ping > 0 {
		ping = time.Hour
	}
	var done atomic.Bool
	h := HandlerFunc(func(ctx context.Context, send chan<- ServerMsg, recv <-chan ClientMsg) error {
		big := strings.Repeat("x", 1<<16)
		for {
			select {
			case <-ctx.Done():
				return ctx.Err()
			case send <- NewServerNoticeMsg(big):
			}
		}
	})
	relay := NewRelay(h, &RelayOption{SendTimeout: 300 * time.Millisecond, PingDuration: ping,
		RecvRateLimitRate: 10, RecvRateLimitBurst: 10, MaxMessageLength: 100000})
	srv := httptest.NewServer(http.HandlerFunc(func(w http.ResponseWriter, r *http.Request) {
		relay.ServeHTTP(w, r)
		done.Store(true)
	}))
	defer srv.Close()
	ctx, cancel := context.WithTimeout(context.Background(), 20*time.Second)
	defer cancel()
	conn, _, err := websocket.Dial(ctx, "ws"+strings.TrimPrefix(srv.URL, "http"), nil)
	if err != nil {
		panic(err)
	}
	defer conn.CloseNow()
	// never read
	deadline := time.Now().Add(4 * time.Second)
	for time.Now().Before(deadline) && !done.Load() {
		time.Sleep(50 * time.Millisecond)
	}
	vpAssert(done.Load(), "C13.write-deadline")
}

// ---------------------------------------------------------------------------
// Clause 2a: when a router session ends (input closed, or context cancelled,
// after any short history) none of its subscriptions remains in the registry.
func vpH_C13_router_cleanup() {
	router := NewRouterHandler(2)
	k := vpChoice("nmsgs", 4)
	recv := make(chan ClientMsg, 4)
	for i := 0; i < k; i++ {
		switch vpChoice("type", 3) {
		case 0:
			recv <- &ClientReqMsg{SubscriptionID: vpSym1("sub"), ReqFilters: []*ReqFilter{{}}}
		case 1:
			recv <- &ClientCloseMsg{SubscriptionID: vpSym1("sub")}
		case 2:
			recv <- &ClientEventMsg{Event: &Event{ID: fmt.Sprintf("e%d", i), Tags: []Tag{}}}
		}
	}
	ctx, cancel := context.WithCancel(context.Background())
	ending := vpChoice("ending", 2)
	if ending == 0 {
		close(recv)
	} else {
		cancel()
	}
	send := make(chan ServerMsg, 16)
	err := router.ServeNostr(ctx, send, recv)
	_ = err // serving has returned; the error value is not part of the statement
	// judged at the moment serving returns: the statement requires that every goroutine
	// of the session has exited by then, so clean-up cannot be left to a helper goroutine
	n := 0
	router.subs.subs.Loop(func(string, *safeMap[string, *subscriber]) { n++ })
	vpAssert(n == 0, "C13.router-registry-empty-after-session")
	cancel()
	vpReach("end")
}

// ---------------------------------------------------------------------------
// Clause 2b: a middleware session calls ServeNostrEnd exactly once on every
// exit once ServeNostrStart succeeded (so gauges are restored, see C19), and
// never when Start failed; the wrapped handler's error is reported.
type vpCountingBase struct {
	starts, ends int
	startErr     error
}

func (b *vpCountingBase) ServeNostrStart(ctx context.Context) (context.Context, error) {
	b.starts++
	return ctx, b.startErr
}
func (b *vpCountingBase) ServeNostrEnd(ctx context.Context) error { b.ends++; return nil }
func (b *vpCountingBase) ServeNostrClientMsg(ctx context.Context, msg ClientMsg) (<-chan ClientMsg, <-chan ServerMsg, error) {
	return newClosedBufCh(msg), nil, nil
}
func (b *vpCountingBase) ServeNostrServerMsg(ctx context.Context, msg ServerMsg) (<-chan ServerMsg, error) {
	return newClosedBufCh(msg), nil
}

func vpH_C13_middleware_end() {
	base := &vpCountingBase{}
	startFails := vpChoice("startfails", 2) == 1
	if startFails {
		base.startErr = errors.New("start failed")
	}
	herr := errors.New("handler failed")
	mode := vpChoice("handler", 3)
	h := HandlerFunc(func(ctx context.Context, send chan<- ServerMsg, recv <-chan ClientMsg) error {
		switch mode {
		case 0:
			return herr
		case 1:
			return nil
		default:
			// consume until the input is closed
			for range recv {
			}
			return ErrRecvClosed
		}
	})
	recv := make(chan ClientMsg, 2)
	if vpChoice("preload", 2) == 1 {
		recv <- &ClientCloseMsg{SubscriptionID: "s"}
	}
	if mode == 2 {
		close(recv)
	}
	send := make(chan ServerMsg, 8)
	_ = NewSimpleMiddleware(base)(h).ServeNostr(context.Background(), send, recv) // which error is reported is not part of the statement
	if startFails {
		vpAssert(base.starts == 1 && base.ends == 0, "C13.no-end-without-start")
	} else {
		vpAssert(base.starts == 1 && base.ends == 1, "C13.end-exactly-once")
	}
	vpReach("end")
}
