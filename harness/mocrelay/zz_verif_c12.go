package mocrelay

import (
	"context"
	"errors"

	"github.com/coder/websocket"
	"golang.org/x/time/rate"
)

func init() {
	vpHarnesses["vpH_C12_gate"] = vpH_C12_gate
}

// C12 gate chain: Relay.serveRead is executed for real; the socket, the rate
// limiter and the predicates it composes (UTF-8 / JSON validity, ParseClientMsg,
// ValidClientMsg, Event.Verify: the subjects of C10/C11/C01) are stubs with
// free outcomes. The message reaches the handler iff every gate passes; in
// every other case exactly one NOTICE is sent, nothing reaches the handler and
// serveRead returns nil (the connection stays usable); a read error is returned.
func vpH_C12_gate() {
	if !vpSymbolic() {
		vpReach("end")
		return
	}
	readErr := errors.New("read failed")
	failRead := vpChoice("readfails", 2) == 1
	typ := websocket.MessageType(vpInt("frametype"))
	vpAssume(typ == websocket.MessageText || typ == websocket.MessageBinary)
	utf8ok, jsonok, valid := vpBool("utf8"), vpBool("json"), vpBool("valid")
	parseOK := vpChoice("parse", 2) == 1
	var parsed ClientMsg
	switch vpChoice("msgtype", 5) {
	case 0:
		parsed = &ClientEventMsg{Event: &Event{ID: "id", Tags: []Tag{}}}
	case 1:
		parsed = &ClientReqMsg{SubscriptionID: "s", ReqFilters: []*ReqFilter{{}}}
	case 2:
		parsed = &ClientCloseMsg{SubscriptionID: "s"}
	case 3:
		parsed = &ClientAuthMsg{Event: &Event{ID: "id", Tags: []Tag{}}}
	case 4:
		parsed = &ClientCountMsg{SubscriptionID: "s", ReqFilters: []*ReqFilter{{}}}
	}
	verifyOK := vpBool("verify")
	verifyErr := vpChoice("verifyerr", 2) == 1
	nVerify := 0

	vpStub("(*golang.org/x/time/rate.Limiter).Wait", func(l *rate.Limiter, ctx context.Context) error { return nil })
	vpStub("(*github.com/coder/websocket.Conn).Read", func(c *websocket.Conn, ctx context.Context) (websocket.MessageType, []byte, error) {
		if failRead {
			return 0, nil, readErr
		}
		return typ, []byte("payload"), nil
	})
	vpStub("unicode/utf8.Valid", func(p []byte) bool { return utf8ok })
	vpStub("encoding/json.Valid", func(p []byte) bool { return jsonok })
	vpStub("github.com/high-moctane/mocrelay.ParseClientMsg", func(b []byte) (ClientMsg, error) {
		if !parseOK {
			return nil, errors.New("parse failed")
		}
		return parsed, nil
	})
	vpStub("github.com/high-moctane/mocrelay.ValidClientMsg", func(m ClientMsg) bool { return valid })
	vpStub("(*github.com/high-moctane/mocrelay.Event).Verify", func(ev *Event) (bool, error) {
		nVerify++
		if verifyErr {
			return false, errors.New("verify failed")
		}
		return verifyOK, nil
	})

	relay := NewRelay(nil, nil)
	recv := make(chan ClientMsg, 4)
	send := make(chan ServerMsg, 4)
	err := relay.serveRead(context.Background(), nil, recv, send, nil)
	if failRead {
		vpAssert(errors.Is(err, readErr), "C12.read-error-ends-the-session")
		vpAssert(len(recv) == 0, "C12.read-error-nothing-reaches-the-handler")
		vpReach("end")
		return
	}
	vpAssert(err == nil, "C12.connection-stays-usable")
	_, isEvent := parsed.(*ClientEventMsg)
	pass := vpAnd(typ == websocket.MessageText, vpAnd(utf8ok, jsonok))
	pass = vpAnd(pass, parseOK)
	pass = vpAnd(pass, valid)
	if isEvent {
		pass = vpAnd(pass, vpAnd(!verifyErr, verifyOK))
	}
	if pass {
		vpAssert(len(recv) == 1 && len(send) == 0, "C12.valid-message-reaches-the-handler-once")
		if len(recv) == 1 {
			vpAssert(vpUnchanged(<-recv, parsed), "C12.handler-gets-the-parsed-message")
		}
	} else {
		vpAssert(len(recv) == 0, "C12.invalid-message-never-reaches-the-handler")
		vpAssert(len(send) == 1, "C12.exactly-one-rejection")
		if len(send) == 1 {
			vpAssert(vpIsRejection(<-send), "C12.rejection-is-a-notice-or-rejecting-ok-closed")
		}
	}
	// a second frame on the same connection is judged on its own outcomes (the gate keeps
	// no memory of earlier frames): same parsed message, fresh free outcomes
	if failRead || typ != websocket.MessageText {
		vpReach("end")
		return
	}
	utf8ok, jsonok, valid = vpBool("utf8-2"), vpBool("json-2"), vpBool("valid-2")
	verifyOK = vpBool("verify-2")
	verifyErr = false
	err = relay.serveRead(context.Background(), nil, recv, send, nil)
	vpAssert(err == nil, "C12.connection-stays-usable")
	pass2 := vpAnd(vpAnd(utf8ok, jsonok), vpAnd(parseOK, valid))
	if isEvent {
		pass2 = vpAnd(pass2, verifyOK)
	}
	if pass2 {
		vpAssert(len(recv) == 1 && len(send) == 0, "C12.second-frame-judged-on-its-own")
	} else {
		vpAssert(len(recv) == 0 && len(send) == 1, "C12.second-frame-judged-on-its-own")
	}
	vpReach("end")
}
