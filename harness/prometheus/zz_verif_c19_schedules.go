package prometheus

import (
	"context"
	"sync"

	"github.com/high-moctane/mocrelay"
	"github.com/prometheus/client_golang/prometheus"
)

func init() {
	vpHarnesses["vpH_C19_schedules"] = vpH_C19_schedules
}

// C19 over schedules (bounded): inside one session the client direction and the server
// direction of the middleware run in different goroutines, and other sessions run next to
// them. Session 1 has subscription x open; then, concurrently,
//
//	G1 (client side of session 1): CLOSE x, or REQ z
//	G2 (server side of session 1): CLOSED x, or EOSE x
//	G3 (session 2, optional):      REQ y
//
// with the scheduler part of the path (every schedule with at most 3 preemptions at a
// mutex/atomic/channel operation; thorough: 5). At the quiescent point afterwards the
// subscription gauge must equal the number of subscriptions that are open (x unless
// closed by either side, z, y), and after both sessions ended both gauges are back at
// their starting values. The gauges are integer cells (the real collectors are atomic).
func vpH_C19_schedules() {
	if !vpSymbolic() {
		vpReach("end")
		return
	}
	vpFakeVecs = map[*prometheus.CounterVec]map[string]*vpFakeCounter{}
	gauges := map[string]prometheus.Gauge{}
	vpStub("github.com/prometheus/client_golang/prometheus.NewGauge", func(o prometheus.GaugeOpts) prometheus.Gauge {
		g := &vpFakeGauge{}
		gauges[o.Name] = g
		return g
	})
	vpStub("github.com/prometheus/client_golang/prometheus.NewCounterVec", func(o prometheus.CounterOpts, labels []string) *prometheus.CounterVec {
		return new(prometheus.CounterVec)
	})
	vpStub("github.com/prometheus/client_golang/prometheus.NewSummary", func(o prometheus.SummaryOpts) prometheus.Summary { return &vpFakeGauge{} })
	vpStub("(*github.com/prometheus/client_golang/prometheus.CounterVec).WithLabelValues", vpFakeWithLabelValues)
	var base mocrelay.SimpleMiddlewareBase = newSimplePrometheusMiddlewareBase(vpFakeRegisterer{})
	connG, reqG := gauges["mocrelay_connection_count"], gauges["mocrelay_req_count"]
	if connG == nil || reqG == nil {
		vpUnsupported("the gauges are not created through prometheus.NewGauge: outside the collector fakes of this harness")
	}
	conn0, req0 := vpGaugeVal(connG), vpGaugeVal(reqG)

	ctx1, err := base.ServeNostrStart(context.Background())
	vpAssert(err == nil, "C19.start")
	ctx2, err := base.ServeNostrStart(context.Background())
	vpAssert(err == nil, "C19.start")
	all := []*mocrelay.ReqFilter{{}}
	drainC := func(cm <-chan mocrelay.ClientMsg) {
		for range cm {
		}
	}
	cm, _, _ := base.ServeNostrClientMsg(ctx1, &mocrelay.ClientReqMsg{SubscriptionID: "x", ReqFilters: all})
	drainC(cm)
	vpAssert(vpGaugeVal(reqG)-req0 == 1, "C19.subscription-gauge")

	clientCloses := vpChoice("client", 2) == 0
	serverCloses := vpChoice("server", 2) == 0
	other := vpChoice("other-session", 2) == 1
	vpPreempt(3 + 2*vpTier())
	var wg sync.WaitGroup
	wg.Add(2)
	go func() {
		defer wg.Done()
		var msg mocrelay.ClientMsg = &mocrelay.ClientReqMsg{SubscriptionID: "z", ReqFilters: all}
		if clientCloses {
			msg = &mocrelay.ClientCloseMsg{SubscriptionID: "x"}
		}
		cm, _, _ := base.ServeNostrClientMsg(ctx1, msg)
		drainC(cm)
	}()
	go func() {
		defer wg.Done()
		var msg mocrelay.ServerMsg = mocrelay.NewServerEOSEMsg("x")
		if serverCloses {
			msg = mocrelay.NewServerClosedMsg("x", "", "gone")
		}
		ch, _ := base.ServeNostrServerMsg(ctx1, msg)
		for range ch {
		}
	}()
	if other {
		wg.Add(1)
		go func() {
			defer wg.Done()
			cm, _, _ := base.ServeNostrClientMsg(ctx2, &mocrelay.ClientReqMsg{SubscriptionID: "y", ReqFilters: all})
			drainC(cm)
		}()
	}
	wg.Wait()
	vpPreempt(0)
	want := int64(0)
	if !clientCloses && !serverCloses {
		want++ // x still open
	}
	if !clientCloses {
		want++ // z
	}
	if other {
		want++ // y
	}
	vpAssert(vpGaugeVal(reqG)-req0 == want, "C19.schedules-subscription-gauge-at-quiescence")
	vpAssert(vpGaugeVal(connG)-conn0 == 2, "C19.schedules-connection-gauge-at-quiescence")
	vpAssert(base.ServeNostrEnd(ctx1) == nil && base.ServeNostrEnd(ctx2) == nil, "C19.end")
	vpAssert(vpGaugeVal(reqG) == req0 && vpGaugeVal(connG) == conn0, "C19.schedules-gauges-restored-after-sessions")
	vpReach("end")
}
