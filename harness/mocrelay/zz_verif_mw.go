package mocrelay

import (
	"context"
	"sync"
)

// Public-API driver for middlewares: the middleware value (func(Handler) Handler) wraps a
// recording inner handler; every session is a real ServeNostr call with its own goroutines
// under the engine's canonical schedule. Nothing below the exported constructors is used,
// so a middleware may keep its state wherever it likes (context, base object, closure).

type vpInnerSess struct {
	got  chan ClientMsg // what the middleware forwarded to the wrapped handler
	emit chan ServerMsg // what the wrapped handler sends back
}

type vpInner struct {
	mu       sync.Mutex
	sessions []*vpInnerSess
}

func (h *vpInner) count() int {
	h.mu.Lock()
	defer h.mu.Unlock()
	return len(h.sessions)
}

func (h *vpInner) ServeNostr(ctx context.Context, send chan<- ServerMsg, recv <-chan ClientMsg) error {
	s := &vpInnerSess{got: make(chan ClientMsg, 16), emit: make(chan ServerMsg, 16)}
	h.mu.Lock()
	h.sessions = append(h.sessions, s)
	h.mu.Unlock()
	for {
		select {
		case <-ctx.Done():
			return ctx.Err()
		case m, ok := <-recv:
			if !ok {
				return ErrRecvClosed
			}
			s.got <- m
		case m := <-s.emit:
			select {
			case <-ctx.Done():
				return ctx.Err()
			case send <- m:
			}
		}
	}
}

type vpMWSess struct {
	toMW   chan ClientMsg
	fromMW chan ServerMsg
	inner  *vpInnerSess
	done   chan error
	cancel context.CancelFunc
}

func vpSettle() {
	for i := 0; i < 8; i++ {
		vpYield()
	}
}

// vpStartSession starts one session of h (= middleware(inner)).
func vpStartSession(h Handler, inner *vpInner) *vpMWSess {
	ctx, cancel := context.WithCancel(context.Background())
	s := &vpMWSess{toMW: make(chan ClientMsg, 1), fromMW: make(chan ServerMsg, 16), done: make(chan error, 1), cancel: cancel}
	n := inner.count()
	go func() { s.done <- h.ServeNostr(ctx, s.fromMW, s.toMW) }()
	// natively the start of a session may take a while (a quota of 2^20 pre-sizes a table)
	for i := 0; i < 2500 && inner.count() != n+1; i++ {
		vpYield()
	}
	vpSettle()
	if inner.count() == n+1 {
		inner.mu.Lock()
		s.inner = inner.sessions[n]
		inner.mu.Unlock()
	}
	return s
}

func (s *vpMWSess) drain() (fwd []ClientMsg, rep []ServerMsg) {
	if s.inner != nil {
		for len(s.inner.got) > 0 {
			fwd = append(fwd, <-s.inner.got)
		}
	}
	for len(s.fromMW) > 0 {
		rep = append(rep, <-s.fromMW)
	}
	return
}

// client sends one client message into the session and returns what reached the wrapped
// handler and what came back to the client.
func (s *vpMWSess) client(m ClientMsg) (fwd []ClientMsg, rep []ServerMsg) {
	s.toMW <- m
	s.wait()
	return s.drain()
}

// wait: until something came out on either side (natively: at most half a second), then
// a little longer for anything that follows
func (s *vpMWSess) wait() {
	for i := 0; i < 250 && len(s.inner.got) == 0 && len(s.fromMW) == 0; i++ {
		vpYield()
	}
	vpSettle()
}

// server lets the wrapped handler emit one server message and returns what reached the client.
func (s *vpMWSess) server(m ServerMsg) []ServerMsg {
	s.inner.emit <- m
	s.wait()
	_, rep := s.drain()
	return rep
}

// vpVerdict: either msg reached the wrapped handler unchanged and nothing was replied, or
// nothing reached it and exactly one rejection of the protocol's type for msg was replied.
func vpVerdict(P string, msg ClientMsg, respects bool, fwd []ClientMsg, rep []ServerMsg) {
	if respects {
		vpAssert(len(fwd) == 1 && len(rep) == 0, P+".forward-exactly")
		if len(fwd) == 1 {
			vpAssert(vpUnchanged(fwd[0], msg), P+".forward-unchanged")
		}
		return
	}
	vpAssert(len(fwd) == 0 && len(rep) == 1, P+".reject-exactly-one")
	if len(rep) != 1 {
		return
	}
	switch m := msg.(type) {
	case *ClientEventMsg:
		ok, isOK := rep[0].(*ServerOKMsg)
		vpAssert(isOK, P+".reject-type-ok")
		if isOK {
			vpAssert(!ok.Accepted, P+".reject-ok-false")
			vpAssert(ok.EventID == m.Event.ID, P+".reject-names-event")
		}
	case *ClientReqMsg:
		cl, isCl := rep[0].(*ServerClosedMsg)
		vpAssert(isCl, P+".reject-type-closed")
		if isCl {
			vpAssert(cl.SubscriptionID == m.SubscriptionID, P+".reject-names-sub")
		}
	case *ClientCountMsg:
		cl, isCl := rep[0].(*ServerClosedMsg)
		vpAssert(isCl, P+".reject-type-closed")
		if isCl {
			vpAssert(cl.SubscriptionID == m.SubscriptionID, P+".reject-names-sub")
		}
	default:
		vpAssert(false, P+".reject-of-unrejectable-type")
	}
}
