package mocrelay

import (
	"errors"
	"strconv"

	"github.com/btcsuite/btcd/btcec/v2"
	"github.com/btcsuite/btcd/btcec/v2/schnorr"
)

func init() {
	vpHarnesses["vpH_C01_serialize"] = vpH_C01_serialize
	vpHarnesses["vpH_C01_verify"] = vpH_C01_verify
}

// specEscape: NIP-01's string form: only \" \\ \n \r \t \b \f are short
// escapes, the remaining C0 controls are \u00xx, every other character verbatim.
func specEscape(dst []byte, s string) []byte {
	const hexdigits = "0123456789abcdef"
	dst = append(dst, '"')
	for i := 0; i < len(s); i++ {
		c := s[i]
		switch {
		case c == '"':
			dst = append(dst, '\\', '"')
		case c == '\\':
			dst = append(dst, '\\', '\\')
		case c == '\n':
			dst = append(dst, '\\', 'n')
		case c == '\r':
			dst = append(dst, '\\', 'r')
		case c == '\t':
			dst = append(dst, '\\', 't')
		case c == '\b':
			dst = append(dst, '\\', 'b')
		case c == '\f':
			dst = append(dst, '\\', 'f')
		case c < 0x20:
			dst = append(dst, '\\', 'u', '0', '0', hexdigits[c>>4], hexdigits[c&0xf])
		default:
			dst = append(dst, c)
		}
	}
	return append(dst, '"')
}

// specSerialize: [0,"<pubkey>",<created_at>,<kind>,<tags>,"<content>"], compact.
func specSerialize(ev *Event) []byte {
	out := []byte("[0,")
	out = specEscape(out, ev.Pubkey)
	out = append(out, ',')
	out = strconv.AppendInt(out, ev.CreatedAt, 10)
	out = append(out, ',')
	out = strconv.AppendInt(out, ev.Kind, 10)
	out = append(out, ',', '[')
	for i, t := range ev.Tags {
		if i > 0 {
			out = append(out, ',')
		}
		out = append(out, '[')
		for j, e := range t {
			if j > 0 {
				out = append(out, ',')
			}
			out = specEscape(out, e)
		}
		out = append(out, ']')
	}
	out = append(out, ']', ',')
	out = specEscape(out, ev.Content)
	return append(out, ']')
}

// vpMarshalSkeleton stands in for json.Marshal(&[6]any{...}) when Serialize
// delegates to encoding/json: array/number skeleton modelled, every string
// through the REAL encoding/json.appendString with escapeHTML=true (what
// json.Marshal passes). Unused when Serialize writes the bytes itself.
func vpMarshalSkeleton(v any) ([]byte, error) {
	arr, ok := v.(*[6]any)
	if !ok {
		return nil, errors.New("vpMarshalSkeleton: unexpected value")
	}
	out := []byte{'['}
	for i, x := range arr {
		if i > 0 {
			out = append(out, ',')
		}
		switch x := x.(type) {
		case int:
			out = strconv.AppendInt(out, int64(x), 10)
		case int64:
			out = strconv.AppendInt(out, x, 10)
		case string:
			out = vpJSONAppendString(out, x, true)
		case []Tag:
			if x == nil {
				out = append(out, "null"...)
				continue
			}
			out = append(out, '[')
			for j, t := range x {
				if j > 0 {
					out = append(out, ',')
				}
				out = append(out, '[')
				for k, e := range t {
					if k > 0 {
						out = append(out, ',')
					}
					out = vpJSONAppendString(out, e, true)
				}
				out = append(out, ']')
			}
			out = append(out, ']')
		default:
			return nil, errors.New("vpMarshalSkeleton: unexpected element")
		}
	}
	return append(out, ']'), nil
}

// C01 O1: the bytes Serialize returns equal the NIP-01 serialization, for every
// valid-UTF-8 content / tag string within the length bound (i.e. every Unicode
// scalar value in isolation and every combination up to that length).
func vpH_C01_serialize() {
	vpStub("encoding/json.Marshal", vpMarshalSkeleton)
	ints := []int64{0, 1, -1, 1693157791, 9223372036854775807, -9223372036854775808}
	maxLen := 3
	if vpTier() > 0 {
		maxLen = 4
	}
	ev := &Event{Pubkey: vpHex64, CreatedAt: ints[vpChoice("created_at", len(ints))], Kind: ints[vpChoice("kind", len(ints))], Tags: []Tag{}}
	sym := vpString("text", vpChoice("len", maxLen+1))
	vpAssume(vpValidUTF8(sym))
	switch vpChoice("where", 3) {
	case 0:
		ev.Content = sym
	case 1:
		ev.Content = "plain"
		ev.Tags = []Tag{{"t", sym, "x"}}
	case 2:
		ev.Content = sym
		ev.Tags = []Tag{{}, {"e", vpHex64}, {sym}}
	}
	got, err := ev.Serialize()
	vpAssert(err == nil, "C01.serialize-no-error")
	want := specSerialize(ev)
	vpAssert(string(got) == string(want), "C01.canonical-serialization")
	vpReach("end")
}

// C01 O2: Verify reports authentic exactly when the id decodes and equals
// SHA-256 of the bytes Serialize returned, pubkey and sig decode and parse, and
// the Schnorr verification of (sig, id, pubkey) succeeds. The primitives are
// uninterpreted stubs with free outcomes.
func vpH_C01_verify() {
	if !vpSymbolic() {
		vpReach("end")
		return
	}
	vpStub("encoding/json.Marshal", vpMarshalSkeleton)
	ev := &Event{ID: "ID", Pubkey: "PK", Sig: "SIG", Kind: 1, CreatedAt: 2, Tags: []Tag{}, Content: "c"}
	serialized, _ := ev.Serialize()
	idOK, pkOK, sigOK := vpChoice("id-decodes", 2) == 1, vpChoice("pubkey-decodes", 2) == 1, vpChoice("sig-decodes", 2) == 1
	parsePkOK, parseSigOK := vpChoice("pubkey-parses", 2) == 1, vpChoice("sig-parses", 2) == 1
	schnorrOK := vpBool("schnorr-verifies")
	idByte, hashByte := vpByte("id-bytes"), vpByte("digest")
	mk32 := func(b byte) []byte { out := make([]byte, 32); out[0] = b; return out }
	hashedRight := false
	vpStub("encoding/hex.DecodeString", func(s string) ([]byte, error) {
		switch s {
		case "ID":
			if !idOK {
				return nil, errors.New("bad hex")
			}
			return mk32(idByte), nil
		case "PK":
			if !pkOK {
				return nil, errors.New("bad hex")
			}
			return []byte("pk-bytes"), nil
		case "SIG":
			if !sigOK {
				return nil, errors.New("bad hex")
			}
			return []byte("sig-bytes"), nil
		}
		return nil, errors.New("unexpected")
	})
	vpStub("crypto/sha256.Sum256", func(data []byte) [32]byte {
		hashedRight = string(data) == string(serialized)
		var out [32]byte
		out[0] = hashByte
		return out
	})
	pubkeyObj := new(btcec.PublicKey)
	sigObj := new(schnorr.Signature)
	verifiedRight := false
	vpStub("github.com/btcsuite/btcd/btcec/v2/schnorr.ParsePubKey", func(b []byte) (*btcec.PublicKey, error) {
		if !parsePkOK || string(b) != "pk-bytes" {
			return nil, errors.New("bad pubkey")
		}
		return pubkeyObj, nil
	})
	vpStub("github.com/btcsuite/btcd/btcec/v2/schnorr.ParseSignature", func(b []byte) (*schnorr.Signature, error) {
		if !parseSigOK || string(b) != "sig-bytes" {
			return nil, errors.New("bad sig")
		}
		return sigObj, nil
	})
	vpStub("(*github.com/btcsuite/btcd/btcec/v2/schnorr.Signature).Verify", func(s *schnorr.Signature, hash []byte, pk *btcec.PublicKey) bool {
		verifiedRight = s == sigObj && pk == pubkeyObj && len(hash) == 32 && hash[0] == idByte
		return schnorrOK
	})
	ok, err := ev.Verify()
	idMatches := idByte == hashByte
	authentic := idOK && pkOK && sigOK && parsePkOK && parseSigOK
	want := vpAnd(vpAnd(authentic, idMatches), schnorrOK)
	vpAssert(vpIff(vpAnd(ok, err == nil), want), "C01.authentic-iff-id-and-signature-check-out")
	vpAssert(vpImplies(ok, err == nil), "C01.never-true-with-error")
	if idOK {
		vpAssert(hashedRight, "C01.digest-is-over-the-serialization")
	}
	if vpAnd(ok, err == nil) {
		vpAssert(verifiedRight, "C01.signature-checked-over-the-id-under-the-pubkey")
	}
	// a second, different event under the same pubkey and signature strings: the verdict
	// must again follow from ITS id and ITS signature check (no state carried over)
	ev2 := &Event{ID: "ID", Pubkey: "PK", Sig: "SIG", Kind: 1, CreatedAt: 3, Tags: []Tag{}, Content: "other"}
	serialized, _ = ev2.Serialize()
	idOK, pkOK, sigOK, parsePkOK, parseSigOK = true, true, true, true, true
	schnorrOK = vpBool("schnorr-verifies-2")
	idByte, hashByte = vpByte("id-bytes-2"), vpByte("digest-2")
	ok2, err2 := ev2.Verify()
	vpAssert(vpIff(vpAnd(ok2, err2 == nil), vpAnd(idByte == hashByte, schnorrOK)), "C01.second-event-judged-on-its-own")
	vpReach("end")
}
