package mocrelay

import (
	"context"
	"fmt"
)

func init() {
	vpHarnesses["vpH_C13_termination"] = vpH_C13_termination
}

// C13 clause 1, for ONE schedule family only: a session of a handler
// composition is cut (context cancelled, or inbound channel closed) after a
// short client history, with a peer that drains its output or one that never
// reads. Under the engine's canonical cooperative schedule and every
// alternative of every select with several ready cases, serving must return
// and, once the remaining goroutines have run, none of the goroutines the
// session started may be left (a goroutine blocked forever is a leak).
// Other interleavings are NOT covered.
func vpH_C13_termination() {
	var h Handler
	switch vpChoice("handler", 5) {
	case 0:
		h = NewDefaultHandler()
	case 1:
		h = NewCacheHandler(4)
	case 2:
		h = NewRouterHandler(2)
	case 3:
		h = NewMergeHandler(NewCacheHandler(4), NewRouterHandler(2))
	case 4:
		h = NewMergeHandler(NewDefaultHandler(), NewCacheHandler(4), NewRouterHandler(2))
	}
	switch vpChoice("middleware", 3) {
	case 1:
		h = NewMaxSubscriptionsMiddleware(2)(h)
	case 2:
		h = NewMaxReqFiltersMiddleware(2)(NewRecvEventUniqueFilterMiddleware(2)(h))
	}
	stalled := vpChoice("peer", 2) == 1
	var send chan ServerMsg
	if stalled {
		send = make(chan ServerMsg) // nobody ever reads
	} else {
		send = make(chan ServerMsg, 64)
	}
	recv := make(chan ClientMsg, 4)
	k := vpChoice("history", 3)
	for i := 0; i < k; i++ {
		switch vpChoice("type", 3) {
		case 0:
			recv <- &ClientReqMsg{SubscriptionID: fmt.Sprintf("s%d", i), ReqFilters: []*ReqFilter{{}}}
		case 1:
			recv <- &ClientEventMsg{Event: &Event{ID: fmt.Sprintf("e%d", i), Pubkey: "A", Kind: 1, CreatedAt: int64(i), Tags: []Tag{}}}
		case 2:
			recv <- &ClientCloseMsg{SubscriptionID: "s0"}
		}
	}
	ctx, cancel := context.WithCancel(context.Background())
	done := make(chan error, 1)
	before := vpLiveGoroutines()
	go func() { done <- h.ServeNostr(ctx, send, recv) }()
	// let the session work on its input (0..2 scheduling rounds), then cut
	for i := vpChoice("progress", 3); i > 0; i-- {
		vpYield()
	}
	if vpChoice("cut", 2) == 0 {
		cancel()
	} else {
		close(recv)
		if stalled {
			// with a peer that never reads, closing the input alone cannot end a session that is
			// blocked on output; the statement's second case is "while output is being drained"
			cancel()
		}
	}
	for i := 0; i < 40 && len(done) == 0; i++ {
		vpYield()
	}
	vpAssert(len(done) == 1, "C13.serving-returns-after-the-cut")
	for i := 0; i < 40 && vpLiveGoroutines() > before; i++ {
		vpYield()
	}
	vpAssert(vpLiveGoroutines() == before, "C13.no-goroutine-left-behind")
	cancel()
	vpReach("end")
}
