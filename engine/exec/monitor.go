package exec

import (
	"fmt"
	"go/types"

	"golang.org/x/tools/go/ssa"
	"symgo/smt"
)

// Lockset monitor: a harness declares vpGuardedBy(root, mu, immutableTypeNames...).
// Every load/store/map operation on a cell reachable from root (not through a
// pointer to an immutable type) requires mu held: read or write for reads,
// write for writes; an access made while some OTHER lock is held in an adequate mode is
// not reported (the state may be guarded by a different lock than declared). A breach
// (no adequate lock held at all) is reported as a violation of label "lockset".

type guardSpec struct {
	root      *Value
	rootT     types.Type
	mu        *Value
	immutable map[string]bool
}

func vpGuardedBy(e *Exec, _ *frame, _ *ssa.Function, a []Value) Value {
	root := a[0].(Iface)
	mu := a[1].(Iface)
	g := &guardSpec{root: root.V.(*Value), rootT: root.T, mu: mu.V.(*Value), immutable: map[string]bool{}}
	for _, n := range a[2].(Slice).A {
		g.immutable[argStr(e, n)] = true
	}
	e.guards = append(e.guards, g)
	return nil
}

func vpLockEvents(e *Exec, _ *frame, _ *ssa.Function, a []Value) Value {
	n := len(e.lockLog)
	if b, _ := a[0].(*smt.Term).ConstBool(); b {
		e.lockLog = nil
	}
	return e.mkInt(int64(n))
}

func (e *Exec) lockEvent(p *Value, write, acquire bool) {
	for _, g := range e.guards {
		if g.mu == p {
			k := "R"
			if write {
				k = "W"
			}
			if acquire {
				k += "+"
			} else {
				k += "-"
			}
			e.lockLog = append(e.lockLog, k)
		}
	}
}

func (e *Exec) guardHeld(g *guardSpec, write bool) bool {
	ls := e.locks[g.mu]
	if ls == nil {
		return false
	}
	if write {
		return ls.writer
	}
	return ls.writer || ls.readers > 0
}

// otherLockHeld: some lock other than the declared one is held in a mode adequate for the
// access. The state may then be guarded by a different lock than the harness declared (a
// sharded or renamed mutex): not a breach the monitor can establish.
func (e *Exec) otherLockHeld(g *guardSpec, write bool) bool {
	for p, ls := range e.locks {
		if p == g.mu || ls == nil {
			continue
		}
		if ls.writer && (e.cur == nil || ls.holder == e.cur.id) {
			return true
		}
		if !write && ls.readers > 0 {
			return true
		}
	}
	return false
}

// A write without an adequate lock is a breach at once. A read without a lock is a breach
// only if the same cell (or map) is also WRITTEN while it is part of the guarded state on this
// path: cells that are never written after they became reachable (immutable-after-publication
// objects handed out of the critical section) are not mutable shared state.
func (e *Exec) monitorAccess(p *Value, write bool) {
	if len(e.guards) == 0 || e.lenient > 0 || e.spec > 0 {
		return
	}
	for _, g := range e.guards {
		if p == g.mu {
			continue
		}
		if e.guardHeld(g, write) || e.otherLockHeld(g, write) {
			if write && e.reachable(g, p, nil) {
				if where, ok := e.unlockedReads[p]; ok {
					e.lockBreachAt(false, "memory cell (written under the lock elsewhere on this path)", where)
				}
				e.guardedWrites[p] = true
			}
			continue
		}
		if e.reachable(g, p, nil) {
			if write || e.guardedWrites[p] {
				e.lockBreach(write, "memory cell")
			}
			if _, ok := e.unlockedReads[p]; !ok {
				e.unlockedReads[p] = e.where()
			}
		}
	}
}

func (e *Exec) monitorMap(m *Map, write bool) {
	if len(e.guards) == 0 || e.lenient > 0 || e.spec > 0 || m == nil {
		return
	}
	for _, g := range e.guards {
		if e.guardHeld(g, write) || e.otherLockHeld(g, write) {
			if write && e.reachable(g, nil, m) {
				if where, ok := e.unlockedMapReads[m]; ok {
					e.lockBreachAt(false, "map (written under the lock elsewhere on this path)", where)
				}
				e.guardedMapWrites[m] = true
			}
			continue
		}
		if e.reachable(g, nil, m) {
			if write || e.guardedMapWrites[m] {
				e.lockBreach(write, "map")
			}
			if _, ok := e.unlockedMapReads[m]; !ok {
				e.unlockedMapReads[m] = e.where()
			}
		}
	}
}

func (e *Exec) lockBreachAt(write bool, what, where string) {
	kind := "read"
	if write {
		kind = "write"
	}
	m := e.model
	if m == nil {
		m = map[string]uint64{}
	}
	e.violation("lockset", fmt.Sprintf("%s of guarded %s without holding the lock%s", kind, what, where), m, "")
	panic(pathEnd{endViolation, "lockset"})
}

func (e *Exec) lockBreach(write bool, what string) {
	kind := "read"
	if write {
		kind = "write"
	}
	m := e.model
	if m == nil {
		m = map[string]uint64{}
	}
	e.violation("lockset", fmt.Sprintf("%s of guarded %s without holding the lock%s", kind, what, e.where()), m, "")
	panic(pathEnd{endViolation, "lockset"})
}

// reachable reports whether cell p (or map m) is part of the guarded state.
func (e *Exec) reachable(g *guardSpec, p *Value, m *Map) bool {
	seenP := map[*Value]bool{}
	seenM := map[*Map]bool{}
	found := false
	var walkCell func(c *Value, t types.Type)
	var walk func(v Value, t types.Type)
	walkCell = func(c *Value, t types.Type) {
		if found || c == nil {
			return
		}
		if c == p {
			found = true
			return
		}
		if seenP[c] {
			return
		}
		seenP[c] = true
		walk(*c, t)
	}
	walk = func(v Value, t types.Type) {
		if found || t == nil {
			return
		}
		switch v := v.(type) {
		case Struct:
			st, ok := t.Underlying().(*types.Struct)
			if !ok {
				return
			}
			for i := range v {
				ft := st.Field(i).Type()
				if isSyncType(ft) {
					continue
				}
				walkCell(&v[i], ft)
			}
		case Array:
			at, ok := t.Underlying().(*types.Array)
			if !ok {
				return
			}
			for i := range v {
				walkCell(&v[i], at.Elem())
			}
		case Slice:
			sl, ok := t.Underlying().(*types.Slice)
			if !ok {
				return
			}
			full := v.A[:cap(v.A)]
			for i := range full {
				walkCell(&full[i], sl.Elem())
			}
		case *Value:
			pt, ok := t.Underlying().(*types.Pointer)
			if !ok || v == nil {
				return
			}
			if n, ok := pt.Elem().(*types.Named); ok && g.immutable[n.Obj().Name()] {
				return
			}
			walkCell(v, pt.Elem())
		case *Map:
			if v == nil {
				return
			}
			if v == m {
				found = true
				return
			}
			if seenM[v] {
				return
			}
			seenM[v] = true
			for _, ent := range v.Ents {
				if ent.Deleted {
					continue
				}
				walk(ent.K, v.KeyT)
				walk(ent.V, v.ElemT)
			}
		case Iface:
			if v.T != nil {
				walk(v.V, v.T)
			}
		case *Closure:
		}
	}
	walkCell(g.root, deref(g.rootT))
	return found
}

func isSyncType(t types.Type) bool {
	if n, ok := t.(*types.Named); ok && n.Obj().Pkg() != nil {
		p := n.Obj().Pkg().Path()
		return p == "sync" || p == "sync/atomic"
	}
	return false
}
