// Package smt is a small QF_BV term library: hash-consed term DAG with
// constant folding, an SMT-LIB2 printer (shared sub-terms bound by let) and a
// concrete evaluator used for replay and for model-guided branch decisions.
package smt

import (
	"fmt"
	"math/bits"
	"strconv"
	"strings"
)

type Kind uint8

const (
	KConst Kind = iota // bit-vector constant (W>0) or Boolean constant (W==0)
	KVar
	KNot
	KAnd
	KOr
	KEq
	KIte
	KAdd
	KSub
	KMul
	KUDiv
	KURem
	KSDiv
	KSRem
	KBAnd
	KBOr
	KBXor
	KBNot
	KNeg
	KShl
	KLshr
	KAshr
	KUlt
	KUle
	KSlt
	KSle
	KExtract // Val = hi<<16 | lo
	KConcat
	KZext
	KSext
)

var kindName = map[Kind]string{
	KNot: "not", KAnd: "and", KOr: "or", KEq: "=", KIte: "ite",
	KAdd: "bvadd", KSub: "bvsub", KMul: "bvmul", KUDiv: "bvudiv", KURem: "bvurem",
	KSDiv: "bvsdiv", KSRem: "bvsrem", KBAnd: "bvand", KBOr: "bvor", KBXor: "bvxor",
	KBNot: "bvnot", KNeg: "bvneg", KShl: "bvshl", KLshr: "bvlshr", KAshr: "bvashr",
	KUlt: "bvult", KUle: "bvule", KSlt: "bvslt", KSle: "bvsle", KConcat: "concat",
}

// Term is an immutable node. W==0 means Boolean sort, otherwise (_ BitVec W), W<=64.
type Term struct {
	Kind Kind
	W    int
	Val  uint64
	Name string
	Args []*Term
	ID   int
}

func (t *Term) IsBool() bool  { return t.W == 0 }
func (t *Term) IsConst() bool { return t.Kind == KConst }

// ConstBool reports (value, true) for Boolean constants.
func (t *Term) ConstBool() (bool, bool) {
	if t.Kind == KConst && t.W == 0 {
		return t.Val != 0, true
	}
	return false, false
}

// ConstU reports (value, true) for bit-vector constants (zero-extended).
func (t *Term) ConstU() (uint64, bool) {
	if t.Kind == KConst && t.W > 0 {
		return t.Val, true
	}
	return 0, false
}

// ConstS reports the sign-extended value of a bit-vector constant.
func (t *Term) ConstS() (int64, bool) {
	if t.Kind == KConst && t.W > 0 {
		return sext(t.Val, t.W), true
	}
	return 0, false
}

func mask(w int) uint64 {
	if w >= 64 {
		return ^uint64(0)
	}
	return (uint64(1) << uint(w)) - 1
}

func sext(v uint64, w int) int64 {
	if w >= 64 {
		return int64(v)
	}
	sh := uint(64 - w)
	return int64(v<<sh) >> sh
}

// Ctx owns the hash-consing table. Not safe for concurrent use: one per worker.
type tkey struct {
	kind       Kind
	w          int32
	val        uint64
	a0, a1, a2 int32
}

type Ctx struct {
	tab    map[tkey]*Term
	nextID int
	True   *Term
	False  *Term
	Vars   map[string]*Term
}

func NewCtx() *Ctx {
	c := &Ctx{tab: make(map[tkey]*Term, 1024), Vars: make(map[string]*Term)}
	c.False = c.mk(&Term{Kind: KConst, W: 0, Val: 0})
	c.True = c.mk(&Term{Kind: KConst, W: 0, Val: 1})
	return c
}

// Reset drops all terms (used between paths to bound memory).
func (c *Ctx) Reset() {
	c.tab = make(map[tkey]*Term, 1024)
	c.Vars = make(map[string]*Term)
	c.nextID = 0
	c.False = c.mk(&Term{Kind: KConst, W: 0, Val: 0})
	c.True = c.mk(&Term{Kind: KConst, W: 0, Val: 1})
}

func (c *Ctx) mk(t *Term) *Term {
	if t.Kind == KVar {
		// variables are unique by name (see Var)
		t.ID = c.nextID
		c.nextID++
		return t
	}
	k := tkey{kind: t.Kind, w: int32(t.W), val: t.Val, a0: -1, a1: -1, a2: -1}
	switch len(t.Args) {
	case 3:
		k.a2 = int32(t.Args[2].ID)
		fallthrough
	case 2:
		k.a1 = int32(t.Args[1].ID)
		fallthrough
	case 1:
		k.a0 = int32(t.Args[0].ID)
	}
	if old, ok := c.tab[k]; ok {
		return old
	}
	t.ID = c.nextID
	c.nextID++
	c.tab[k] = t
	return t
}

func (c *Ctx) Bool(b bool) *Term {
	if b {
		return c.True
	}
	return c.False
}

func (c *Ctx) BV(v uint64, w int) *Term {
	if w <= 0 || w > 64 {
		panic(fmt.Sprintf("smt: bad width %d", w))
	}
	return c.mk(&Term{Kind: KConst, W: w, Val: v & mask(w)})
}

// Var returns the variable of that name (w==0: Bool). A name has one sort.
func (c *Ctx) Var(name string, w int) *Term {
	if v, ok := c.Vars[name]; ok {
		if v.W != w {
			panic(fmt.Sprintf("smt: variable %s redeclared with width %d (was %d)", name, w, v.W))
		}
		return v
	}
	v := c.mk(&Term{Kind: KVar, W: w, Name: name})
	c.Vars[name] = v
	return v
}

func (c *Ctx) Not(a *Term) *Term {
	if b, ok := a.ConstBool(); ok {
		return c.Bool(!b)
	}
	if a.Kind == KNot {
		return a.Args[0]
	}
	return c.mk(&Term{Kind: KNot, Args: []*Term{a}})
}

func (c *Ctx) And(a, b *Term) *Term {
	if v, ok := a.ConstBool(); ok {
		if v {
			return b
		}
		return c.False
	}
	if v, ok := b.ConstBool(); ok {
		if v {
			return a
		}
		return c.False
	}
	if a == b {
		return a
	}
	if (a.Kind == KNot && a.Args[0] == b) || (b.Kind == KNot && b.Args[0] == a) {
		return c.False
	}
	return c.mk(&Term{Kind: KAnd, Args: []*Term{a, b}})
}

func (c *Ctx) Or(a, b *Term) *Term {
	if v, ok := a.ConstBool(); ok {
		if v {
			return c.True
		}
		return b
	}
	if v, ok := b.ConstBool(); ok {
		if v {
			return c.True
		}
		return a
	}
	if a == b {
		return a
	}
	if (a.Kind == KNot && a.Args[0] == b) || (b.Kind == KNot && b.Args[0] == a) {
		return c.True
	}
	return c.mk(&Term{Kind: KOr, Args: []*Term{a, b}})
}

func (c *Ctx) AndN(ts ...*Term) *Term {
	r := c.True
	for _, t := range ts {
		r = c.And(r, t)
	}
	return r
}

func (c *Ctx) OrN(ts ...*Term) *Term {
	r := c.False
	for _, t := range ts {
		r = c.Or(r, t)
	}
	return r
}

func (c *Ctx) Implies(a, b *Term) *Term { return c.Or(c.Not(a), b) }

func (c *Ctx) Eq(a, b *Term) *Term {
	if a.W != b.W {
		panic(fmt.Sprintf("smt: Eq width mismatch %d vs %d", a.W, b.W))
	}
	if a == b {
		return c.True
	}
	if a.Kind == KConst && b.Kind == KConst {
		return c.Bool(a.Val == b.Val)
	}
	if a.W == 0 {
		if v, ok := a.ConstBool(); ok {
			if v {
				return b
			}
			return c.Not(b)
		}
		if v, ok := b.ConstBool(); ok {
			if v {
				return a
			}
			return c.Not(a)
		}
	}
	// ite(c, k1, k2) == k  with constants: fold
	if b.Kind == KConst && a.Kind == KIte && a.Args[1].Kind == KConst && a.Args[2].Kind == KConst {
		t1 := a.Args[1].Val == b.Val
		t2 := a.Args[2].Val == b.Val
		switch {
		case t1 && t2:
			return c.True
		case t1:
			return a.Args[0]
		case t2:
			return c.Not(a.Args[0])
		default:
			return c.False
		}
	}
	if a.Kind == KConst && b.Kind == KIte {
		return c.Eq(b, a)
	}
	if a.ID > b.ID {
		a, b = b, a
	}
	return c.mk(&Term{Kind: KEq, Args: []*Term{a, b}})
}

func (c *Ctx) Ite(cond, a, b *Term) *Term {
	if a.W != b.W {
		panic(fmt.Sprintf("smt: Ite width mismatch %d vs %d", a.W, b.W))
	}
	if v, ok := cond.ConstBool(); ok {
		if v {
			return a
		}
		return b
	}
	if a == b {
		return a
	}
	if a.W == 0 {
		av, aok := a.ConstBool()
		bv, bok := b.ConstBool()
		switch {
		case aok && bok:
			if av && !bv {
				return cond
			}
			if !av && bv {
				return c.Not(cond)
			}
		case aok && av:
			return c.Or(cond, b)
		case aok && !av:
			return c.And(c.Not(cond), b)
		case bok && bv:
			return c.Or(c.Not(cond), a)
		case bok && !bv:
			return c.And(cond, a)
		}
	}
	return c.mk(&Term{Kind: KIte, W: a.W, Args: []*Term{cond, a, b}})
}

func evalBin(k Kind, w int, x, y uint64) uint64 {
	m := mask(w)
	switch k {
	case KAdd:
		return (x + y) & m
	case KSub:
		return (x - y) & m
	case KMul:
		return (x * y) & m
	case KUDiv:
		if y == 0 {
			return m
		}
		return x / y
	case KURem:
		if y == 0 {
			return x
		}
		return x % y
	case KSDiv:
		sx, sy := sext(x, w), sext(y, w)
		if sy == 0 {
			if sx < 0 {
				return 1
			}
			return m
		}
		if sy == -1 {
			return uint64(-sx) & m
		}
		return uint64(sx/sy) & m
	case KSRem:
		sx, sy := sext(x, w), sext(y, w)
		if sy == 0 {
			return x
		}
		if sy == -1 {
			return 0
		}
		return uint64(sx%sy) & m
	case KBAnd:
		return x & y
	case KBOr:
		return x | y
	case KBXor:
		return x ^ y
	case KShl:
		if y >= uint64(w) {
			return 0
		}
		return (x << y) & m
	case KLshr:
		if y >= uint64(w) {
			return 0
		}
		return x >> y
	case KAshr:
		sx := sext(x, w)
		if y >= uint64(w) {
			if sx < 0 {
				return m
			}
			return 0
		}
		return uint64(sx>>y) & m
	}
	panic("evalBin")
}

func evalCmp(k Kind, w int, x, y uint64) bool {
	switch k {
	case KUlt:
		return x < y
	case KUle:
		return x <= y
	case KSlt:
		return sext(x, w) < sext(y, w)
	case KSle:
		return sext(x, w) <= sext(y, w)
	}
	panic("evalCmp")
}

// Bin builds a binary bit-vector operation.
func (c *Ctx) Bin(k Kind, a, b *Term) *Term {
	if a.W != b.W || a.W == 0 {
		panic(fmt.Sprintf("smt: Bin %v width mismatch %d vs %d", k, a.W, b.W))
	}
	if a.Kind == KConst && b.Kind == KConst {
		return c.BV(evalBin(k, a.W, a.Val, b.Val), a.W)
	}
	switch k {
	case KAdd:
		if a.Kind == KConst && a.Val == 0 {
			return b
		}
		if b.Kind == KConst && b.Val == 0 {
			return a
		}
		// (x + k1) + k2
		if b.Kind == KConst && a.Kind == KAdd && a.Args[1].Kind == KConst {
			return c.Bin(KAdd, a.Args[0], c.BV(a.Args[1].Val+b.Val, a.W))
		}
	case KSub:
		if b.Kind == KConst && b.Val == 0 {
			return a
		}
		if a == b {
			return c.BV(0, a.W)
		}
		if b.Kind == KConst {
			return c.Bin(KAdd, a, c.BV(-b.Val, a.W))
		}
	case KMul:
		if a.Kind == KConst && a.Val == 1 {
			return b
		}
		if b.Kind == KConst && b.Val == 1 {
			return a
		}
		if (a.Kind == KConst && a.Val == 0) || (b.Kind == KConst && b.Val == 0) {
			return c.BV(0, a.W)
		}
	case KBAnd:
		if a == b {
			return a
		}
		if b.Kind == KConst && b.Val == mask(a.W) {
			return a
		}
		if a.Kind == KConst && a.Val == mask(a.W) {
			return b
		}
		if (a.Kind == KConst && a.Val == 0) || (b.Kind == KConst && b.Val == 0) {
			return c.BV(0, a.W)
		}
	case KBOr, KBXor:
		if a.Kind == KConst && a.Val == 0 {
			return b
		}
		if b.Kind == KConst && b.Val == 0 {
			return a
		}
	case KShl, KLshr, KAshr:
		if b.Kind == KConst && b.Val == 0 {
			return a
		}
	}
	return c.mk(&Term{Kind: k, W: a.W, Args: []*Term{a, b}})
}

// Cmp builds an ordering comparison (KUlt, KUle, KSlt, KSle).
func (c *Ctx) Cmp(k Kind, a, b *Term) *Term {
	if a.W != b.W || a.W == 0 {
		panic(fmt.Sprintf("smt: Cmp width mismatch %d vs %d", a.W, b.W))
	}
	if a.Kind == KConst && b.Kind == KConst {
		return c.Bool(evalCmp(k, a.W, a.Val, b.Val))
	}
	if a == b {
		return c.Bool(k == KUle || k == KSle)
	}
	return c.mk(&Term{Kind: k, Args: []*Term{a, b}})
}

func (c *Ctx) BNot(a *Term) *Term {
	if a.Kind == KConst {
		return c.BV(^a.Val, a.W)
	}
	return c.mk(&Term{Kind: KBNot, W: a.W, Args: []*Term{a}})
}

func (c *Ctx) Neg(a *Term) *Term {
	if a.Kind == KConst {
		return c.BV(-a.Val, a.W)
	}
	return c.mk(&Term{Kind: KNeg, W: a.W, Args: []*Term{a}})
}

func (c *Ctx) Extract(a *Term, hi, lo int) *Term {
	if hi < lo || hi >= a.W || lo < 0 {
		panic("smt: bad extract")
	}
	if lo == 0 && hi == a.W-1 {
		return a
	}
	w := hi - lo + 1
	if a.Kind == KConst {
		return c.BV(a.Val>>uint(lo), w)
	}
	// extract of zero/sign extension that stays inside the original
	if (a.Kind == KZext || a.Kind == KSext) && hi < a.Args[0].W {
		return c.Extract(a.Args[0], hi, lo)
	}
	if a.Kind == KZext && lo >= a.Args[0].W {
		return c.BV(0, w)
	}
	return c.mk(&Term{Kind: KExtract, W: w, Val: uint64(hi)<<16 | uint64(lo), Args: []*Term{a}})
}

func (c *Ctx) Zext(a *Term, w int) *Term {
	if w == a.W {
		return a
	}
	if w < a.W {
		return c.Extract(a, w-1, 0)
	}
	if a.Kind == KConst {
		return c.BV(a.Val, w)
	}
	if a.Kind == KZext {
		return c.Zext(a.Args[0], w)
	}
	return c.mk(&Term{Kind: KZext, W: w, Args: []*Term{a}})
}

func (c *Ctx) Sext(a *Term, w int) *Term {
	if w == a.W {
		return a
	}
	if w < a.W {
		return c.Extract(a, w-1, 0)
	}
	if a.Kind == KConst {
		return c.BV(uint64(sext(a.Val, a.W)), w)
	}
	return c.mk(&Term{Kind: KSext, W: w, Args: []*Term{a}})
}

func (c *Ctx) Concat(hi, lo *Term) *Term {
	w := hi.W + lo.W
	if hi.Kind == KConst && lo.Kind == KConst {
		return c.BV(hi.Val<<uint(lo.W)|lo.Val, w)
	}
	return c.mk(&Term{Kind: KConcat, W: w, Args: []*Term{hi, lo}})
}

// ---------------------------------------------------------------------------
// Printing

func sortStr(w int) string {
	if w == 0 {
		return "Bool"
	}
	return "(_ BitVec " + strconv.Itoa(w) + ")"
}

func constStr(t *Term) string {
	if t.W == 0 {
		if t.Val != 0 {
			return "true"
		}
		return "false"
	}
	if t.W%4 == 0 {
		s := strconv.FormatUint(t.Val, 16)
		return "#x" + strings.Repeat("0", t.W/4-len(s)) + s
	}
	s := strconv.FormatUint(t.Val, 2)
	return "#b" + strings.Repeat("0", t.W-len(s)) + s
}

// QuoteName renders a variable name as an SMT-LIB symbol.
func QuoteName(n string) string { return "|" + n + "|" }

// String renders the term in SMT-LIB2 with let-bindings for shared nodes.
func (t *Term) String() string {
	// count references
	refs := map[*Term]int{}
	var order []*Term
	var visit func(x *Term)
	visit = func(x *Term) {
		refs[x]++
		if refs[x] > 1 {
			return
		}
		for _, a := range x.Args {
			visit(a)
		}
		order = append(order, x) // post-order: children first
	}
	visit(t)
	names := map[*Term]string{}
	var sb strings.Builder
	var pr func(x *Term) string
	pr = func(x *Term) string {
		if n, ok := names[x]; ok {
			return n
		}
		switch x.Kind {
		case KConst:
			return constStr(x)
		case KVar:
			return QuoteName(x.Name)
		case KExtract:
			return fmt.Sprintf("((_ extract %d %d) %s)", x.Val>>16, x.Val&0xffff, pr(x.Args[0]))
		case KZext:
			return fmt.Sprintf("((_ zero_extend %d) %s)", x.W-x.Args[0].W, pr(x.Args[0]))
		case KSext:
			return fmt.Sprintf("((_ sign_extend %d) %s)", x.W-x.Args[0].W, pr(x.Args[0]))
		}
		var b strings.Builder
		b.WriteByte('(')
		b.WriteString(kindName[x.Kind])
		for _, a := range x.Args {
			b.WriteByte(' ')
			b.WriteString(pr(a))
		}
		b.WriteByte(')')
		return b.String()
	}
	nlets := 0
	for _, x := range order {
		if x == t || refs[x] < 2 || len(x.Args) == 0 {
			continue
		}
		body := pr(x)
		n := "?t" + strconv.Itoa(x.ID)
		sb.WriteString("(let ((")
		sb.WriteString(n)
		sb.WriteByte(' ')
		sb.WriteString(body)
		sb.WriteString(")) ")
		names[x] = n
		nlets++
	}
	sb.WriteString(pr(t))
	sb.WriteString(strings.Repeat(")", nlets))
	return sb.String()
}

// CollectVars appends the variables occurring in t to set.
func CollectVars(t *Term, set map[*Term]bool, seen map[*Term]bool) {
	if seen[t] {
		return
	}
	seen[t] = true
	if t.Kind == KVar {
		set[t] = true
	}
	for _, a := range t.Args {
		CollectVars(a, set, seen)
	}
}

// ---------------------------------------------------------------------------
// Evaluation under a model (missing variables evaluate to 0).

type Model map[string]uint64

func Eval(t *Term, m Model) uint64 {
	memo := map[*Term]uint64{}
	var ev func(x *Term) uint64
	ev = func(x *Term) uint64 {
		if v, ok := memo[x]; ok {
			return v
		}
		var r uint64
		switch x.Kind {
		case KConst:
			r = x.Val
		case KVar:
			r = m[x.Name] & func() uint64 {
				if x.W == 0 {
					return 1
				}
				return mask(x.W)
			}()
		case KNot:
			r = 1 - ev(x.Args[0])
		case KAnd:
			r = ev(x.Args[0]) & ev(x.Args[1])
		case KOr:
			r = ev(x.Args[0]) | ev(x.Args[1])
		case KEq:
			if ev(x.Args[0]) == ev(x.Args[1]) {
				r = 1
			}
		case KIte:
			if ev(x.Args[0]) != 0 {
				r = ev(x.Args[1])
			} else {
				r = ev(x.Args[2])
			}
		case KUlt, KUle, KSlt, KSle:
			if evalCmp(x.Kind, x.Args[0].W, ev(x.Args[0]), ev(x.Args[1])) {
				r = 1
			}
		case KBNot:
			r = ^ev(x.Args[0]) & mask(x.W)
		case KNeg:
			r = -ev(x.Args[0]) & mask(x.W)
		case KExtract:
			r = (ev(x.Args[0]) >> uint(x.Val&0xffff)) & mask(x.W)
		case KZext:
			r = ev(x.Args[0])
		case KSext:
			r = uint64(sext(ev(x.Args[0]), x.Args[0].W)) & mask(x.W)
		case KConcat:
			r = ev(x.Args[0])<<uint(x.Args[1].W) | ev(x.Args[1])
		default:
			r = evalBin(x.Kind, x.W, ev(x.Args[0]), ev(x.Args[1]))
		}
		memo[x] = r
		return r
	}
	return ev(t)
}

var _ = bits.Len
