package sqlite

import (
	"fmt"
	"hash"

	"github.com/doug-martin/goqu/v9"
	"github.com/doug-martin/goqu/v9/exp"
	"github.com/high-moctane/mocrelay"
)

func init() {
	vpHarnesses["vpH_C06_tombstones"] = vpH_C06_tombstones
	vpHarnesses["vpH_C06_keys"] = vpH_C06_keys
	vpHarnesses["vpH_C06_tagindex"] = vpH_C06_tagindex
	vpHarnesses["vpH_C06_limit"] = vpH_C06_limit
	vpHarnesses["vpH_C06_emptyfilters"] = vpH_C06_emptyfilters
	vpHarnesses["vpH_C06_batch"] = vpH_C06_batch
}

// The SQL text runs inside SQLite's C engine: outside this technique. Decided
// here: the Go-side kernels the statement depends on, with the hash functions
// as functionally consistent stubs (equal inputs <=> equal outputs is all that
// is used) and goqu as a recorded, unexecuted (opaque) library. Counterexamples
// are replayed natively against the real in-memory SQLite store (native hook).

// vpNative is set by the native test build (zz_verif_native_test.go).
var vpNative func(scenario string, in map[string]string) (failed bool)

// vpXX is the stand-in for xxHash32: Sum32 is an uninterpreted function of
// (seed, bytes written).
type vpXX struct {
	seed uint32
	buf  string
}

func (x *vpXX) Write(p []byte) (int, error)       { x.buf += string(p); return len(p), nil }
func (x *vpXX) WriteString(s string) (int, error) { x.buf += s; return 0, nil }
func (x *vpXX) Sum(b []byte) []byte               { return b }
func (x *vpXX) Reset()                            { x.buf = "" }
func (x *vpXX) Size() int                         { return 4 }
func (x *vpXX) BlockSize() int                    { return 1 }
func (x *vpXX) Sum32() uint32 {
	if vpIsOpaqueStr(x.buf) { // decimal rendering of a symbolic integer: an arbitrary hash value
		return uint32(vpUint64("xx-of-opaque"))
	}
	return uint32(vpHash64("xx", fmt.Sprint(x.seed), x.buf))
}

var vpMD5Inputs []string

func vpInstallHashStubs() {
	vpStub("github.com/pierrec/xxHash/xxHash32.New", func(seed uint32) hash.Hash32 { return &vpXX{seed: seed} })
	vpMD5Inputs = nil
	vpStub("crypto/md5.Sum", func(data []byte) [16]byte {
		vpMD5Inputs = append(vpMD5Inputs, string(data))
		h := vpHash64("md5", string(data))
		var out [16]byte
		for i := 0; i < 8; i++ {
			out[i] = byte(h >> (8 * uint(i)))
		}
		return out
	})
}

// O1/O2: a deletion request yields one tombstone row per 'e' (resp. 'a') tag
// with at least two elements, in order, carrying the author's key; other kinds
// yield none.
func vpH_C06_tombstones() {
	if !vpSymbolic() {
		if vpNative != nil {
			vpAssert(!vpNative("tombstone-extra-element", nil), "C06.id-tombstone-per-e-tag")
		}
		vpReach("end")
		return
	}
	vpInstallHashStubs()
	kind := []int64{5, 1}[vpChoice("kind", 2)]
	ev := &mocrelay.Event{ID: vpID1, Pubkey: vpPkA, Kind: kind, Tags: []mocrelay.Tag{}}
	nt := vpChoice("ntags", 3)
	var wantIDs, wantAddrs []string
	for i := 0; i < nt; i++ {
		ne := vpChoice("nelems", 4) // 0..3 elements
		var t mocrelay.Tag
		if ne >= 1 {
			t = append(t, vpString("name", 1))
		}
		if ne >= 2 {
			if vpChoice("value", 2) == 0 {
				t = append(t, vpID2)
			} else {
				t = append(t, "30000:"+vpPkA+":x")
			}
		}
		if ne >= 3 {
			t = append(t, "wss://relay.example")
		}
		ev.Tags = append(ev.Tags, t)
		if kind == 5 && ne >= 2 {
			if t[0] == "e" && t[1] == vpID2 {
				wantIDs = append(wantIDs, t[1])
			}
			if t[0] == "a" && t[1] != vpID2 {
				wantAddrs = append(wantAddrs, t[1])
			}
		}
	}
	ids, err := buildInsertEventsParamsDeletedEventIDs(vpSeed, ev)
	vpAssert(err == nil, "C06.id-tombstones-no-error")
	vpAssert(len(ids) == len(wantIDs), "C06.id-tombstone-per-e-tag")
	for _, row := range ids {
		vpAssert(len(row) == 2, "C06.id-tombstone-row-shape")
		if len(row) == 2 {
			id, ok1 := row[0].([]byte)
			pk, ok2 := row[1].([]byte)
			vpAssert(ok1 && ok2 && len(id) == 32 && len(pk) == 32 && id[0] == 0x22 && pk[0] == 0xaa, "C06.id-tombstone-carries-id-and-author")
		}
	}
	keys, err := buildInsertEventsParamsDeletedEventKeys(vpSeed, ev)
	vpAssert(err == nil, "C06.key-tombstones-no-error")
	vpAssert(len(keys) == len(wantAddrs), "C06.key-tombstone-per-a-tag")
	vpReach("end")
}

// Key agreement and storage class: the tombstone key built from the reference
// string kind:pubkey:d equals the key under which that addressable event is
// stored (d symbolic, may contain ':'); ephemeral events and addressable events
// without d are not stored; others are.
func vpH_C06_keys() {
	if !vpSymbolic() {
		vpReach("end")
		return
	}
	vpInstallHashStubs()
	d := vpString("d", vpChoice("dlen", 3))
	target := &mocrelay.Event{ID: vpID2, Pubkey: vpPkA, Kind: 30000, CreatedAt: 10, Tags: []mocrelay.Tag{{"d", d}}}
	key, ok := getEventKey(vpSeed, target)
	vpAssert(ok, "C06.addressable-with-d-is-stored")
	del := &mocrelay.Event{ID: vpID1, Pubkey: vpPkA, Kind: 5, Tags: []mocrelay.Tag{{"a", "30000:" + vpPkA + ":" + d}}}
	rows, err := buildInsertEventsParamsDeletedEventKeys(vpSeed, del)
	vpAssert(err == nil && len(rows) == 1, "C06.key-tombstone-built")
	if len(rows) == 1 {
		tk, isInt := rows[0][0].(int64)
		vpAssert(isInt && tk == key, "C06.tombstone-key-equals-storage-key")
	}
	// another author's reference to the same address string must not carry A's key pair
	other := &mocrelay.Event{ID: vpID1, Pubkey: vpPkB, Kind: 5, Tags: []mocrelay.Tag{{"a", "30000:" + vpPkA + ":" + d}}}
	orows, _ := buildInsertEventsParamsDeletedEventKeys(vpSeed, other)
	if len(orows) == 1 {
		pk, _ := orows[0][1].([]byte)
		vpAssert(len(pk) == 32 && pk[0] == 0xbb, "C06.tombstone-carries-the-requests-author")
	}
	// storage class for every kind
	k := vpInt64("kind")
	e := &mocrelay.Event{ID: vpID1, Pubkey: vpPkA, Kind: k, CreatedAt: vpInt64("at"), Tags: []mocrelay.Tag{}}
	_, stored := getEventKey(vpSeed, e)
	eph := vpAnd(20000 <= k, k < 30000)
	addr := vpAnd(30000 <= k, k < 40000)
	vpAssert(vpImplies(eph, !stored), "C06.ephemeral-never-stored")
	vpAssert(vpImplies(!vpOr(eph, addr), stored), "C06.regular-and-replaceable-stored")
	vpReach("end")
}

// O3: the tag index is written and queried with the same hash input for the
// same (name, value), value = second element or "" (1, 2 and 3+ element tags).
func vpH_C06_tagindex() {
	if !vpSymbolic() {
		vpReach("end")
		return
	}
	vpInstallHashStubs()
	vpOpaque("github.com/doug-martin/goqu/v9")
	vpOpaque("github.com/doug-martin/goqu/v9/exp")
	name := vpString("name", 1)
	vpAssume(vpOr(vpAnd('a' <= name[0], name[0] <= 'z'), vpAnd('A' <= name[0], name[0] <= 'Z')))
	ne := 1 + vpChoice("nelems", 3)
	t := mocrelay.Tag{name}
	value := ""
	if ne >= 2 {
		value = vpString("value", vpChoice("vlen", 3))
		t = append(t, value)
	}
	if ne >= 3 {
		t = append(t, "extra")
	}
	ev := &mocrelay.Event{ID: vpID1, Pubkey: vpPkA, Kind: 1, CreatedAt: 5, Tags: []mocrelay.Tag{t}}
	rows := buildInsertEventsParamsTags(vpSeed, ev, 99)
	if len(vpMD5Inputs) == 0 {
		vpUnsupported("the tag index is not built from an MD5 of the tag: this harness cannot follow it")
	}
	vpAssert(len(rows) == 1 && len(vpMD5Inputs) == 1, "C06.tag-indexed-once")
	insertSide := vpMD5Inputs[0] // what exactly is hashed is the implementation's choice; both sides must agree
	vpMD5Inputs = nil
	_, _, err := buildEventQuery([]*mocrelay.ReqFilter{{Tags: map[string][]string{name: {value}}}}, vpSeed, NoLimit)
	vpAssert(err == nil, "C06.query-builds")
	if len(vpMD5Inputs) == 0 {
		vpUnsupported("the query does not hash the tag condition with MD5: this harness cannot follow it")
	}
	vpAssert(len(vpMD5Inputs) == 1, "C06.query-hashes-the-tag-condition")
	if len(vpMD5Inputs) == 1 {
		vpAssert(vpMD5Inputs[0] == insertSide, "C06.query-and-insert-hash-the-same-string")
	}
	vpReach("end")
}

// O4: the effective limit is min(limit, maxLimit); an effective limit of 0 must
// yield a query returning no rows for that filter, never "no LIMIT clause"
// (goqu v9: Limit(n) sets LIMIT n for n > 0 and CLEARS the limit for n == 0).
func vpH_C06_limit() {
	if !vpSymbolic() {
		if vpNative != nil {
			vpAssert(!vpNative("limit-zero", nil), "C06.zero-limit-returns-nothing")
		}
		vpReach("end")
		return
	}
	type call struct {
		limit    uint
		isLimit  bool
		falseCnd bool
	}
	var calls []call
	lastLitFalse := false
	vpStub("(*github.com/doug-martin/goqu/v9.SelectDataset).Limit", func(sd *goqu.SelectDataset, n uint) *goqu.SelectDataset {
		calls = append(calls, call{limit: n, isLimit: true})
		return sd
	})
	vpStub("github.com/doug-martin/goqu/v9.L", func(sql string, args ...any) exp.LiteralExpression {
		lastLitFalse = vpIsFalseLiteral(sql)
		return nil
	})
	vpStub("(*github.com/doug-martin/goqu/v9.SelectDataset).Where", func(sd *goqu.SelectDataset, es ...exp.Expression) *goqu.SelectDataset {
		// the literal built immediately before is the (only) condition
		if len(es) == 1 && es[0] == nil && lastLitFalse {
			calls = append(calls, call{falseCnd: true})
		} else {
			calls = append(calls, call{})
		}
		lastLitFalse = false
		return sd
	})
	maxLimit := uint(vpUint64("maxLimit"))
	var limit *int64
	if vpChoice("haslimit", 2) == 1 {
		l := vpInt64("limit")
		vpAssume(l >= 0)
		limit = &l
	}
	appendLimitQuery(new(goqu.SelectDataset), limit, maxLimit)
	eff := maxLimit
	if limit != nil && uint(*limit) < eff {
		eff = uint(*limit)
	}
	switch {
	case eff == NoLimit:
		vpAssert(len(calls) == 0, "C06.no-limit-no-clause")
	case eff == 0:
		ok := len(calls) == 1 && calls[0].falseCnd
		vpAssert(ok, "C06.zero-limit-returns-nothing")
	default:
		vpAssert(len(calls) == 1 && calls[0].isLimit && calls[0].limit == eff, "C06.limit-is-min-of-limit-and-max")
	}
	vpReach("end")
}

// O7: an empty filter list must not produce an unconstrained query.
func vpH_C06_emptyfilters() {
	if !vpSymbolic() {
		if vpNative != nil {
			vpAssert(!vpNative("empty-filter-list", nil), "C06.empty-filter-list-matches-nothing")
		}
		vpReach("end")
		return
	}
	vpOpaque("github.com/doug-martin/goqu/v9/exp")
	vpOpaque("github.com/doug-martin/goqu/v9")
	orArgs := -1
	falseWhere := false
	vpStub("github.com/doug-martin/goqu/v9.Or", func(es ...exp.Expression) exp.ExpressionList {
		orArgs = len(es)
		return nil
	})
	vpStub("github.com/doug-martin/goqu/v9.L", func(sql string, args ...any) exp.LiteralExpression {
		if vpIsFalseLiteral(sql) {
			falseWhere = true
		}
		return nil
	})
	_, _, err := buildEventQuery([]*mocrelay.ReqFilter{}, vpSeed, NoLimit)
	// acceptable: an error, an always-false condition, or no query at all; not acceptable: WHERE over an empty OR
	vpAssert(err != nil || falseWhere || orArgs != 0, "C06.empty-filter-list-matches-nothing")
	vpReach("end")
}

// vpIsFalseLiteral: SQL literals that are an always-false condition.
func vpIsFalseLiteral(sql string) bool {
	return sql == "0" || sql == "false" || sql == "1=0" || sql == "1 = 0"
}

// O8: what a batch hands to the statements - also when several events of the batch share
// a storage key (two versions of one address, the same event twice): the newest version
// of every address must get through (whether older ones do is the implementation's choice).
func vpH_C06_batch() {
	if !vpSymbolic() {
		vpReach("end")
		return
	}
	vpInstallHashStubs()
	vpStub("encoding/json.Marshal", func(v any) ([]byte, error) { return []byte("[]"), nil })
	ids := []string{vpID1, vpID2, "3333333333333333333333333333333333333333333333333333333333333333"}
	sig := vpPkA + vpPkA
	n := 2 + vpChoice("n", 2)
	var batch []*mocrelay.Event
	var wantIDs []string
	for i := 0; i < n; i++ {
		var e *mocrelay.Event
		switch vpChoice("class", 5) {
		case 0: // regular
			e = &mocrelay.Event{ID: ids[i], Pubkey: vpPkA, Kind: 1, CreatedAt: vpInt64("at"), Tags: []mocrelay.Tag{}, Sig: sig}
		case 1: // replaceable, same address for every position
			e = &mocrelay.Event{ID: ids[i], Pubkey: vpPkA, Kind: 10000, CreatedAt: vpInt64("at"), Tags: []mocrelay.Tag{}, Sig: sig}
		case 2: // addressable, same address for every position
			e = &mocrelay.Event{ID: ids[i], Pubkey: vpPkA, Kind: 30000, CreatedAt: vpInt64("at"), Tags: []mocrelay.Tag{{"d", "x"}}, Sig: sig}
		case 3: // ephemeral: never stored
			e = &mocrelay.Event{ID: ids[i], Pubkey: vpPkA, Kind: 20000, CreatedAt: vpInt64("at"), Tags: []mocrelay.Tag{}, Sig: sig}
		case 4: // the first event again
			if i == 0 {
				vpAssume(false)
			}
			e = batch[0]
		}
		batch = append(batch, e)
		if e.Kind != 20000 {
			wantIDs = append(wantIDs, e.ID)
		}
	}
	params := buildInsertEventsParams(vpSeed, batch)
	// what reaches the statements: only storable events of the batch; every storable event
	// except exact repeats and versions of an address for which the batch holds a version
	// that is not older (choosing the newest may be done here or left to the upsert)
	present := map[byte]bool{}
	for i := range params {
		idBin, ok := params[i].Events[1].([]byte)
		vpAssert(ok && len(idBin) == 32, "C06.batch-row-shape")
		if !ok || len(idBin) != 32 {
			continue
		}
		d := idBin[0] & 0x0f
		found := false
		for _, e := range batch {
			if e.ID[0]-'0' == d && e.Kind != 20000 {
				found = true
			}
		}
		vpAssert(found && idBin[0] == d<<4|d, "C06.batch-only-storable-events-of-the-batch")
		present[d] = true
	}
	for i, e := range batch {
		if e.Kind == 20000 {
			continue
		}
		covered := false
		for j, o := range batch {
			if j == i || o == e {
				continue
			}
			if o.Kind == e.Kind && (e.Kind == 10000 || e.Kind == 30000) && vpDecide(o.CreatedAt >= e.CreatedAt) {
				covered = true
			}
		}
		if !covered {
			vpAssert(present[e.ID[0]-'0'], "C06.batch-newest-version-of-every-address-reaches-the-statements")
		}
	}
	vpReach("end")
}
