package sqlite

import (
	"context"
	"database/sql"
	"errors"
	"time"

	"github.com/high-moctane/mocrelay"
)

func init() {
	vpHarnesses["vpH_C14_tx"] = vpH_C14_tx
	vpHarnesses["vpH_C14_retry"] = vpH_C14_retry
	vpHarnesses["vpH_C14_seed"] = vpH_C14_seed
}

type vpSQLResult struct{ affected int64 }

func (r vpSQLResult) LastInsertId() (int64, error) { return 0, nil }
func (r vpSQLResult) RowsAffected() (int64, error) { return r.affected, nil }

var vpErrInjected = errors.New("injected driver fault")

// vpSQLLog records the driver-level calls insertEvents makes.
type vpSQLLog struct {
	k       int // the k-th driver call fails (1-based); 0 or beyond the last call: no fault
	n       int
	faulted bool
	events  []string // begin, prepare, exec, rows, commit, rollback, close
	tx      *sql.Tx
}

func (l *vpSQLLog) step(what string) error {
	l.n++
	if l.faulted {
		l.events = append(l.events, "AFTER-FAULT:"+what)
	} else {
		l.events = append(l.events, what)
	}
	if l.n == l.k {
		l.faulted = true
		return vpErrInjected
	}
	return nil
}

func (l *vpSQLLog) count(what string) int {
	c := 0
	for _, e := range l.events {
		if e == what {
			c++
		}
	}
	return c
}

// C14 transaction control flow: the crash point is a variable. For every index
// k at which the driver can fail (begin, each prepare, each exec, RowsAffected,
// commit): every statement runs between Begin and Commit/Rollback of the same
// transaction; a failure => no later statement, Rollback, no Commit, non-nil
// error; no failure => exactly one Commit; nothing to insert => no transaction.
// vpNativeTx is set by the native test build: the atomicity/idempotence scenario on the real store.
var vpNativeTx func(k int, nsets int, ntags []int, preexisting []bool) string

func vpH_C14_tx() {
	if !vpSymbolic() {
		// native replay: the same fault point and batch shape against the real SQLite store
		// through a fault-injecting driver; the statement's atomicity and idempotence clauses
		// are checked on real query answers
		k := vpInt("fault-at")
		nsets := vpChoice("nsets", 3)
		ntags := make([]int, nsets)
		pre := make([]bool, nsets)
		for i := 0; i < nsets; i++ {
			ntags[i] = vpChoice("ntags", 3)
			vpChoice("nkeys", 2)
			vpChoice("nids", 2)
		}
		for i := 0; i < nsets; i++ {
			pre[i] = !vpBool("affected")
		}
		if vpNativeTx != nil && nsets > 0 {
			if why := vpNativeTx(k, nsets, ntags, pre); why != "" {
				vpNote(why)
				vpAssert(false, vpReplayLabel("C14.failure-rolls-back"))
			}
		}
		vpReach("end")
		return
	}
	l := &vpSQLLog{k: vpInt("fault-at")}
	vpAssume(0 <= l.k && l.k <= 64)
	nsets := vpChoice("nsets", 3)
	params := make([]insertEventsParams, nsets)
	nstatements := 0
	for i := range params {
		params[i] = insertEventsParams{Events: []any{i}, EventPayloads: []any{i}}
		for j := vpChoice("ntags", 3); j > 0; j-- {
			params[i].Tags = append(params[i].Tags, []any{j})
		}
		if vpChoice("nkeys", 2) == 1 {
			params[i].DeletedEventKeys = append(params[i].DeletedEventKeys, []any{i})
		}
		if vpChoice("nids", 2) == 1 {
			params[i].DeletedEventIDs = append(params[i].DeletedEventIDs, []any{i})
		}
	}
	vpStub("github.com/high-moctane/mocrelay/handler/sqlite.buildInsertEventsParams", func(seed uint32, events []*mocrelay.Event) []insertEventsParams {
		return params
	})
	vpStub("(*database/sql.DB).BeginTx", func(db *sql.DB, ctx context.Context, opts *sql.TxOptions) (*sql.Tx, error) {
		if err := l.step("begin"); err != nil {
			return nil, err
		}
		l.tx = new(sql.Tx)
		return l.tx, nil
	})
	vpStub("(*database/sql.Tx).PrepareContext", func(tx *sql.Tx, ctx context.Context, q string) (*sql.Stmt, error) {
		vpAssert(tx == l.tx, "C14.statements-prepared-on-the-transaction")
		if err := l.step("prepare"); err != nil {
			return nil, err
		}
		return new(sql.Stmt), nil
	})
	vpStub("(*database/sql.DB).PrepareContext", func(db *sql.DB, ctx context.Context, q string) (*sql.Stmt, error) {
		vpAssert(false, "C14.statements-prepared-on-the-transaction")
		return nil, nil
	})
	vpStub("(*database/sql.Stmt).ExecContext", func(s *sql.Stmt, ctx context.Context, args ...any) (sql.Result, error) {
		vpAssert(l.count("begin") == 1 && l.count("commit") == 0 && l.count("rollback") == 0, "C14.exec-inside-the-transaction")
		if err := l.step("exec"); err != nil {
			return nil, err
		}
		nstatements++
		return vpSQLResult{vpIteInt64(vpBool("affected"), 1, 0)}, nil
	})
	vpStub("(*database/sql.Stmt).Close", func(s *sql.Stmt) error {
		l.events = append(l.events, "close")
		return nil
	})
	vpStub("(*database/sql.Tx).Commit", func(tx *sql.Tx) error {
		vpAssert(tx == l.tx, "C14.commit-the-same-transaction")
		return l.step("commit")
	})
	vpStub("(*database/sql.Tx).Rollback", func(tx *sql.Tx) error {
		vpAssert(tx == l.tx, "C14.rollback-the-same-transaction")
		l.events = append(l.events, "rollback")
		return nil
	})
	err := insertEvents(context.Background(), new(sql.DB), 0, nil)
	if nsets == 0 {
		// nothing to insert: no error, and a transaction that was opened nevertheless is finished
		vpAssert(err == nil && l.count("begin") == l.count("commit")+l.count("rollback"), "C14.nothing-to-insert-leaves-no-open-transaction")
		vpReach("end")
		return
	}
	for _, e := range l.events {
		vpAssert(len(e) < 12 || e[:12] != "AFTER-FAULT:", "C14.no-statement-after-a-failure")
	}
	if l.faulted {
		vpAssert(err != nil, "C14.failure-is-reported")
		switch {
		case l.tx == nil: // BeginTx itself failed: there is no transaction
			vpAssert(l.count("rollback") == 0 && l.count("commit") == 0, "C14.failed-begin-no-transaction")
		case l.count("commit") == 1: // the fault was the Commit: nothing else may follow
			vpAssert(l.events[len(l.events)-1] == "commit" && l.count("rollback") == 0, "C14.failed-commit-is-final")
		default:
			vpAssert(l.count("rollback") == 1 && l.count("commit") == 0, "C14.failure-rolls-back")
		}
	} else {
		vpAssert(err == nil, "C14.success-has-no-error")
		vpAssert(l.count("commit") == 1 && l.count("rollback") == 0, "C14.success-commits-once")
	}
	vpReach("end")
}

// bulkInsertWithRetry: the same batch is offered at most 3 times, stops at the
// first success, honours cancellation.
func vpH_C14_retry() {
	if !vpSymbolic() {
		vpReach("end")
		return
	}
	batch := []*mocrelay.Event{{ID: "x"}}
	// how many attempts are made is the implementation's choice (three at present): the
	// failure pattern covers up to 8 attempts, more than that cannot be judged here
	const maxAttempts = 8
	calls := 0
	succeeded := false
	var fails [maxAttempts]bool
	for i := range fails {
		fails[i] = vpChoice("fail", 2) == 1
	}
	vpStub("github.com/high-moctane/mocrelay/handler/sqlite.insertEvents", func(ctx context.Context, db *sql.DB, seed uint32, events []*mocrelay.Event) error {
		vpAssert(len(events) == 1 && events[0] == batch[0], "C14.retry-offers-the-same-batch")
		vpAssert(!succeeded, "C14.retry-stops-at-first-success")
		calls++
		if calls > maxAttempts {
			vpUnsupported("more than 8 insertion attempts for one batch: outside the failure patterns of this harness")
		}
		if fails[calls-1] {
			return vpErrInjected
		}
		succeeded = true
		return nil
	})
	vpStub("time.After", func(d time.Duration) <-chan time.Time {
		ch := make(chan time.Time, 1)
		ch <- time.Time{}
		return ch
	})
	h := &simpleSQLiteHandler{}
	err := h.bulkInsertWithRetry(context.Background(), batch)
	vpAssert(calls >= 1, "C14.retry-at-least-one-attempt")
	vpAssert((err != nil) == !succeeded, "C14.retry-error-iff-no-attempt-succeeded")
	vpReach("end")
}

// setOrLoadXXHashSeed: a stored seed is returned unchanged (so keys computed
// before a restart stay valid); an absent one is stored before it is returned;
// any other error is reported.
func vpH_C14_seed() {
	if !vpSymbolic() {
		vpReach("end")
		return
	}
	mode := vpChoice("mode", 4) // 0 stored, 1 absent, 2 scan error, 3 absent + insert fails
	stored := uint32(vpInt64("stored"))
	fresh := uint32(vpInt64("fresh"))
	var inserted []any
	vpStub("(*database/sql.DB).QueryRowContext", func(db *sql.DB, ctx context.Context, q string, args ...any) *sql.Row { return new(sql.Row) })
	vpStub("(*database/sql.Row).Scan", func(r *sql.Row, dest ...any) error {
		switch mode {
		case 0:
			*(dest[0].(*uint32)) = stored
			return nil
		case 2:
			return vpErrInjected
		}
		return sql.ErrNoRows
	})
	vpStub("math/rand.Uint32", func() uint32 { return fresh })
	vpStub("(*database/sql.DB).ExecContext", func(db *sql.DB, ctx context.Context, q string, args ...any) (sql.Result, error) {
		inserted = append(inserted, args...)
		if mode == 3 {
			return nil, vpErrInjected
		}
		return vpSQLResult{1}, nil
	})
	seed, err := setOrLoadXXHashSeed(context.Background(), new(sql.DB))
	switch mode {
	case 0:
		vpAssert(err == nil && seed == stored && len(inserted) == 0, "C14.stored-seed-returned-unchanged")
	case 1:
		vpAssert(err == nil && seed == fresh, "C14.fresh-seed-returned")
		vpAssert(len(inserted) == 1 && inserted[0] == any(fresh), "C14.fresh-seed-stored-before-use")
	default:
		vpAssert(err != nil, "C14.seed-error-reported")
	}
	vpReach("end")
}
