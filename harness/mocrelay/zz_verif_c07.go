package mocrelay

import (
	"context"
	"fmt"
)

func init() {
	vpHarnesses["vpH_C07_router"] = vpH_C07_router
	vpHarnesses["vpH_C07_sessions"] = vpH_C07_sessions
}

type vpGhostSub struct {
	id string
	fs []*ReqFilter
}

// C07 registry kernel: every registry mutation and every publication is one
// call of router.recv / subs.UnsubscribeAll; histories of such calls over
// several connections are explored, and after every EVENT each connection's
// channel is compared with a ghost registry.
func vpH_C07_router() {
	vpBlockedIsViolation("blocked:C07.publisher-delayed")
	buflen := 1 + vpChoice("buflen", 2)
	router := NewRouterHandler(buflen)
	nconn := 2
	if vpTier() > 0 {
		nconn = 3
	}
	ctx := context.Background()
	chans := make([]chan ServerMsg, nconn)
	reqIDs := make([]string, nconn)
	ghost := make([][]vpGhostSub, nconn)
	guarded := make([]bool, nconn)
	for i := range chans {
		chans[i] = make(chan ServerMsg, buflen)
		reqIDs[i] = fmt.Sprintf("conn-%d", i)
	}
	vpGuardedBy(router.subs.subs, &router.subs.subs.mu, "safeMap", "subscriber")
	steps := vpSteps(3, 4)
	nev := 0
	for k := 0; k < steps; k++ {
		c := vpChoice("conn", nconn)
		switch vpChoice("op", 5) {
		case 0: // REQ (replaces a subscription of the same id)
			sub := vpSym1("sub")
			var f *ReqFilter
			switch vpChoice("filter", 4) {
			case 3: // a limit bounds the stored events of a REQ, never the live ones
				l := vpInt64("limit")
				vpAssume(l >= 0)
				f = &ReqFilter{Limit: &l}
			case 0:
				f = &ReqFilter{}
			case 1:
				f = &ReqFilter{Kinds: []int64{vpInt64("fkind")}}
			case 2:
				s, u := vpInt64("since"), vpInt64("until")
				f = &ReqFilter{Since: &s, Until: &u}
			}
			msg := &ClientReqMsg{SubscriptionID: sub, ReqFilters: []*ReqFilter{f}}
			out := router.recv(ctx, reqIDs[c], msg, chans[c])
			eose, isE := out.(*ServerEOSEMsg)
			vpAssert(isE && eose.SubscriptionID == sub, "C07.req-answered-by-eose")
			if inner, ok := router.subs.subs.TryGet(reqIDs[c]); ok && !guarded[c] {
				guarded[c] = true
				vpGuardedBy(inner, &inner.mu, "subscriber")
			}
			replaced := false
			for i := range ghost[c] {
				if ghost[c][i].id == sub {
					ghost[c][i].fs = msg.ReqFilters
					replaced = true
				}
			}
			if !replaced {
				ghost[c] = append(ghost[c], vpGhostSub{sub, msg.ReqFilters})
			}
		case 1: // CLOSE
			sub := vpSym1("sub")
			out := router.recv(ctx, reqIDs[c], &ClientCloseMsg{SubscriptionID: sub}, chans[c])
			vpAssert(isNilServerMsg(out), "C07.close-unanswered")
			for i := range ghost[c] {
				if ghost[c][i].id == sub {
					ghost[c] = append(ghost[c][:i:i], ghost[c][i+1:]...)
					break
				}
			}
		case 2: // EVENT published by connection c
			ev := &Event{ID: fmt.Sprintf("e%d", nev), Pubkey: "A", Kind: vpInt64("kind"), CreatedAt: vpInt64("at"), Tags: []Tag{}}
			nev++
			before := make([]int, nconn)
			for i := range chans {
				before[i] = len(chans[i])
			}
			out := router.recv(ctx, reqIDs[c], &ClientEventMsg{Event: ev}, chans[c])
			ok, isOK := out.(*ServerOKMsg)
			vpAssert(isOK && ok.Accepted && ok.EventID == ev.ID, "C07.event-answered-by-accepting-ok")
			for i := range chans {
				var want []string
				for _, g := range ghost[i] {
					if specMatchAny(g.fs, ev) {
						want = append(want, g.id)
					}
				}
				free := buflen - before[i]
				exp := len(want)
				if exp > free {
					exp = free // only this connection's own deliveries beyond its buffer are dropped
				}
				vpAssert(len(chans[i])-before[i] == exp, "C07.delivered-to-exactly-the-open-matching-subscriptions")
				// inspect the new messages (rotate the buffer once)
				n := len(chans[i])
				var seen []string
				for j := 0; j < n; j++ {
					m := <-chans[i]
					chans[i] <- m
					if j < before[i] {
						continue
					}
					em, isEv := m.(*ServerEventMsg)
					vpAssert(isEv && em.Event == ev, "C07.delivery-carries-the-event")
					if !isEv {
						continue
					}
					vpAssert(vpIndexOf(want, em.SubscriptionID) >= 0, "C07.delivery-labelled-with-an-open-matching-subscription")
					vpAssert(vpIndexOf(seen, em.SubscriptionID) < 0, "C07.at-most-once-per-subscription")
					seen = append(seen, em.SubscriptionID)
				}
			}
		case 3: // the connection finishes
			router.subs.UnsubscribeAll(reqIDs[c])
			ghost[c] = nil
			guarded[c] = true // a later REQ of this connection creates a fresh inner map: not monitored again
		case 4: // the connection's reader drains one message
			vpAssume(len(chans[c]) > 0)
			<-chans[c]
		}
	}
	// COUNT is answered by a COUNT reply
	cnt, isC := router.recv(ctx, reqIDs[0], &ClientCountMsg{SubscriptionID: "c", ReqFilters: []*ReqFilter{{}}}, chans[0]).(*ServerCountMsg)
	vpAssert(isC && cnt.SubscriptionID == "c", "C07.count-answered")
	vpReach("end")
}

// C07 through the public API: each connection is a real RouterHandler.ServeNostr
// session (its own goroutines) fed through its inbound channel; the harness is
// the clients. ONE canonical cooperative schedule (the engine's): after every
// client message all sessions run until they block, so every message is fully
// processed before the next is sent (the "must" cases of the statement: EOSE
// received before the EVENT was sent, REQ sent after the OK). Outputs are
// compared with the ghost registry as multisets per connection.
func vpH_C07_sessions() {
	buflen := 2
	router := NewRouterHandler(buflen)
	const nconn = 2
	var recvs [nconn]chan ClientMsg
	var sends [nconn]chan ServerMsg
	var done [nconn]chan error
	ghost := make([][]vpGhostSub, nconn)
	alive := [nconn]bool{true, true}
	for i := 0; i < nconn; i++ {
		recvs[i] = make(chan ClientMsg, 1)
		sends[i] = make(chan ServerMsg, 16)
		done[i] = make(chan error, 1)
		i := i
		go func() { done[i] <- router.ServeNostr(context.Background(), sends[i], recvs[i]) }()
	}
	settle := func() {
		for i := 0; i < 6; i++ {
			vpYield()
		}
	}
	drain := func(i int) []ServerMsg {
		var out []ServerMsg
		for len(sends[i]) > 0 {
			out = append(out, <-sends[i])
		}
		return out
	}
	steps := vpSteps(3, 4)
	nev := 0
	for k := 0; k < steps; k++ {
		c := vpChoice("conn", nconn)
		vpAssume(alive[c])
		switch vpChoice("op", 4) {
		case 0: // REQ
			sub := vpSym1("sub")
			var f *ReqFilter
			if vpChoice("filter", 2) == 0 {
				f = &ReqFilter{}
			} else {
				f = &ReqFilter{Kinds: []int64{vpInt64("fkind")}}
			}
			recvs[c] <- &ClientReqMsg{SubscriptionID: sub, ReqFilters: []*ReqFilter{f}}
			settle()
			out := drain(c)
			vpAssert(len(out) == 1, "C07.session-req-one-reply")
			if len(out) == 1 {
				eose, isE := out[0].(*ServerEOSEMsg)
				vpAssert(isE && eose.SubscriptionID == sub, "C07.session-req-answered-by-eose")
			}
			replaced := false
			for i := range ghost[c] {
				if ghost[c][i].id == sub {
					ghost[c][i].fs = []*ReqFilter{f}
					replaced = true
				}
			}
			if !replaced {
				ghost[c] = append(ghost[c], vpGhostSub{sub, []*ReqFilter{f}})
			}
		case 1: // CLOSE
			sub := vpSym1("sub")
			recvs[c] <- &ClientCloseMsg{SubscriptionID: sub}
			settle()
			vpAssert(len(drain(c)) == 0, "C07.session-close-unanswered")
			for i := range ghost[c] {
				if ghost[c][i].id == sub {
					ghost[c] = append(ghost[c][:i:i], ghost[c][i+1:]...)
					break
				}
			}
		case 2: // EVENT
			ev := &Event{ID: fmt.Sprintf("e%d", nev), Pubkey: "A", Kind: vpInt64("kind"), CreatedAt: 1, Tags: []Tag{}}
			nev++
			recvs[c] <- &ClientEventMsg{Event: ev}
			settle()
			for i := 0; i < nconn; i++ {
				out := drain(i)
				var want []string
				if alive[i] {
					for _, g := range ghost[i] {
						if specMatchAny(g.fs, ev) {
							want = append(want, g.id)
						}
					}
				}
				nOK := 0
				var seen []string
				for _, m := range out {
					switch m := m.(type) {
					case *ServerOKMsg:
						nOK++
						vpAssert(i == c && m.Accepted && m.EventID == ev.ID, "C07.session-event-answered-by-accepting-ok")
					case *ServerEventMsg:
						vpAssert(m.Event == ev, "C07.session-delivery-carries-the-event")
						vpAssert(vpIndexOf(want, m.SubscriptionID) >= 0, "C07.session-delivery-to-open-matching-subscription")
						vpAssert(vpIndexOf(seen, m.SubscriptionID) < 0, "C07.session-at-most-once")
						seen = append(seen, m.SubscriptionID)
					default:
						vpAssert(false, "C07.session-unexpected-message")
					}
				}
				if i == c {
					vpAssert(nOK == 1, "C07.session-one-ok")
				}
				exp := len(want)
				if exp > buflen {
					exp = buflen
				}
				vpAssert(len(seen) >= exp && len(seen) <= len(want), "C07.session-every-open-matching-subscription-served")
			}
		case 3: // the client disconnects
			close(recvs[c])
			settle()
			alive[c] = false
			ghost[c] = nil
			vpAssert(len(done[c]) == 1, "C07.session-ends-when-its-input-closes")
		}
	}
	vpReach("end")
}
