package mocrelay

func init() {
	vpHarnesses["vpH_C15_lockset"] = vpH_C15_lockset
}

// (in a file of its own: this harness names the store's mutex field, the others in
// zz_verif_cache.go use only the exported API and must survive a renaming)

// ---------------------------------------------------------------------------
// C15: lock discipline of the shared store (engine-side lockset monitor).
// Every read of cache-internal mutable state happens with mu held, every write
// with mu write-held; each exported operation acquires mu exactly once and
// touches no guarded cell before or after; what Find hands out is not part of
// the guarded state. With sync.RWMutex semantics this yields race freedom and
// linearizability at the lock acquisition (derivation in DESIGN.md, not a query);
// the per-state clauses are then C04/C05's step invariants, re-asserted here.

// vpCriticalSectionOrUnsupported: "exactly one critical section per exported operation" is
// the premise of the derivation of linearizability from RWMutex semantics, not the property:
// when it does not hold the derivation does not apply and this harness cannot conclude
// (INCONCLUSIVE); whether an interleaving then actually misbehaves is decided by the
// schedule exploration (vpH_C15_schedules).
func vpCriticalSectionOrUnsupported(what string) {
	if !vpOneCriticalSection() {
		vpUnsupported(what + ": the operation is not one critical section, so the lock-discipline argument for linearizability does not apply")
	}
}

func vpH_C15_lockset() {
	n := vpHistSteps()
	capacity := vpCapacity(1)
	c := NewEventCache(capacity)
	vpGuardedBy(c, &c.mu, "Event")
	h := vpNewHist(n, true, false)
	all := []*ReqFilter{{}}
	for i := 0; i < n; i++ {
		e := h.next(i)
		vpLockEvents(true)
		before := c.Find(all)
		vpCriticalSectionOrUnsupported("C15.find-one-critical-section")
		flag := c.Add(e)
		vpCriticalSectionOrUnsupported("C15.add-one-critical-section")
		after := c.Find(all)
		vpLockEvents(true)
		ln := c.Len()
		vpCriticalSectionOrUnsupported("C15.len-one-critical-section")
		specStep("C15", before, e, flag, after, int64(capacity), ln)
		// no query shows an event together with a retained deletion request of its author referencing it
		for _, k := range after {
			for _, x := range after {
				if k != x {
					vpAssert(!specRefs(k, x), "C15.no-event-with-its-deletion-request")
				}
			}
		}
		// a selective query (index path) under the monitor as well
		sel := c.Find([]*ReqFilter{{Authors: []string{"A"}, Kinds: []int64{e.Kind}}})
		vpCriticalSectionOrUnsupported("C15.find-index-one-critical-section")
		for _, x := range sel {
			vpAssert(vpHasEvent(after, x), "C15.index-answer-is-retained")
		}
	}
	vpUnguard()
	vpReach("end")
}
