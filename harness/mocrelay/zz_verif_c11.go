package mocrelay

func init() {
	vpHarnesses["vpH_C11_validKind"] = vpH_C11_validKind
	vpHarnesses["vpH_C11_validHex"] = vpH_C11_validHex
}

// C11 O1: validKind(k) <=> 0 <= k <= 65535 for every int64 (one query family).
func vpH_C11_validKind() {
	k := vpInt64("kind")
	vpAssert(validKind(k) == vpAnd(0 <= k, k <= 65535), "C11.validKind")
	vpReach("end")
}

// C11 O1: validID/validPubkey/validSig <=> exact length and every byte in 0-9a-f.
func vpH_C11_validHex() {
	which := vpChoice("which", 3)
	want := []int{64, 64, 128}[which]
	lens := []int{0, 1, want - 1, want, want + 1}
	n := lens[vpChoice("len", len(lens))]
	s := vpString("s", n)
	var got bool
	switch which {
	case 0:
		got = validID(s)
	case 1:
		got = validPubkey(s)
	default:
		got = validSig(s)
	}
	vpAssert(got == vpAnd(n == want, vpAllBytesIn(s, "0123456789abcdef")), "C11.validHex")
	vpReach("end")
}

func init() {
	vpHarnesses["vpH_C11_naddr"] = vpH_C11_naddr
	vpHarnesses["vpH_C11_structs"] = vpH_C11_structs
	vpHarnesses["vpH_C11_label"] = vpH_C11_label
}

const vpHex64 = "aaaaaaaaaaaaaaaaaaaaaaaaaaaaaaaaaaaaaaaaaaaaaaaaaaaaaaaaaaaaaaaa"
const vpHex128 = vpHex64 + vpHex64

// C11 O1: an 'a' address kind:pubkey:d is valid for ANY d (d may contain ':'),
// iff kind is a decimal in 0..65535 and pubkey is 64 lower-case hex characters.
func vpH_C11_naddr() {
	kinds := []string{"0", "1", "30000", "65535", "65536", "-1", "", "x", "99999999999999999999"}
	kindOK := []bool{true, true, true, true, false, false, false, false, false}
	ki := vpChoice("kind", len(kinds))
	var s string
	want := false
	switch vpChoice("shape", 4) {
	case 0: // kind:pubkey:d with one pubkey byte free (first, middle or last) and d free (may contain ':')
		pos := []int{0, 31, 63}[vpChoice("pos", 3)]
		p := vpHex64[:pos] + vpString("pkbyte", 1) + vpHex64[pos+1:]
		d := vpString("d", vpChoice("dlen", 4))
		s = kinds[ki] + ":" + p + ":" + d
		want = vpAnd(kindOK[ki], vpAllBytesIn(p, "0123456789abcdef"))
	case 1: // short pubkey
		s = kinds[ki] + ":" + vpHex64[:63] + ":" + vpString("d", 1)
		// (a ':' in d does not change the verdict: the pubkey is too short either way)
	case 2: // two parts only
		s = kinds[ki] + ":" + vpHex64
	case 3: // valid address whose d is long and starts with a free byte
		s = kinds[ki] + ":" + vpHex64 + ":" + vpString("d", 1) + "tail:with:colons"
		want = kindOK[ki]
	}
	vpAssert(validNaddr(s) == want, "C11.validNaddr")
	vpReach("end")
}

func vpLeafHex(name string, n int) (string, bool) {
	good := vpHex128[:n]
	switch vpChoice(name, 5) {
	case 0:
		return good, true
	case 1:
		return good[:n-1], false
	case 2:
		return good + "a", false
	case 3:
		return "A" + good[1:], false
	default:
		return good[:n-1] + "g", false
	}
}

// C11 O2: structure validators against the statement's conjunction. Leaves are
// representative (the hex validators are decided for all bytes above); kinds,
// since, until, limit are free integers.
func vpH_C11_structs() {
	switch vpChoice("what", 3) {
	case 0: // Event.Valid
		id, idOK := vpLeafHex("id", 64)
		pk, pkOK := vpLeafHex("pubkey", 64)
		sig, sigOK := vpLeafHex("sig", 128)
		kind := vpInt64("kind")
		e := &Event{ID: id, Pubkey: pk, Sig: sig, Kind: kind, CreatedAt: vpInt64("created_at"), Content: vpString("content", 2)}
		tagsOK := true
		switch vpChoice("tags", 5) {
		case 0:
			tagsOK = false // tags absent (nil): a missing member
		case 1:
			e.Tags = []Tag{}
		case 2:
			e.Tags = []Tag{{vpSym1("name"), vpSym1("value"), "x"}, {"e"}}
		case 3:
			e.Tags = []Tag{{"p", "v"}, {}}
			tagsOK = false // an empty tag array: Match and the index rely on tag[0]
		case 4:
			e.Tags = []Tag{{""}}
			tagsOK = false // empty tag name
		}
		want := vpAnd(vpAnd(idOK, pkOK), vpAnd(sigOK, vpAnd(0 <= kind, kind <= 65535)))
		want = vpAnd(want, tagsOK)
		vpAssert(e.Valid() == want, "C11.event-valid")
		var msg ClientMsg = &ClientEventMsg{Event: e}
		if vpChoice("auth", 2) == 1 {
			msg = &ClientAuthMsg{Event: e}
		}
		vpAssert(ValidClientMsg(msg) == want, "C11.event-msg-valid")
	case 1: // ReqFilter.Valid inside REQ / COUNT
		f := &ReqFilter{}
		want := true
		if vpChoice("hasids", 2) == 1 {
			v, ok := vpLeafHex("fid", 64)
			f.IDs = []string{vpHex64, v}
			want = vpAnd(want, ok)
		}
		if vpChoice("hasauthors", 2) == 1 {
			v, ok := vpLeafHex("fauthor", 64)
			f.Authors = []string{v}
			want = vpAnd(want, ok)
		}
		if vpChoice("haskinds", 2) == 1 {
			k := vpInt64("fkind")
			f.Kinds = []int64{1, k}
			want = vpAnd(want, vpAnd(0 <= k, k <= 65535))
		}
		switch vpChoice("tags", 6) {
		case 1:
			v, ok := vpLeafHex("etag", 64)
			f.Tags = map[string][]string{"e": {v}}
			want = vpAnd(want, ok)
		case 2:
			v, ok := vpLeafHex("ptag", 64)
			f.Tags = map[string][]string{"p": {v}, "t": {"anything"}}
			want = vpAnd(want, ok)
		case 3:
			f.Tags = map[string][]string{"a": {"30000:" + vpHex64 + ":d"}}
		case 4:
			n := vpSym1("tagname")
			f.Tags = map[string][]string{n: {"x"}}
			c := n[0]
			vpAssume(c != 'e' && c != 'p' && c != 'a')
			want = vpAnd(want, vpOr(vpAnd('a' <= c, c <= 'z'), vpAnd('A' <= c, c <= 'Z')))
		case 5:
			f.Tags = map[string][]string{"ab": {"x"}}
			want = false // tag filters are single letters
		}
		if vpChoice("hassince", 2) == 1 {
			v := vpInt64("since")
			f.Since = &v
			want = vpAnd(want, v >= 0)
		}
		if vpChoice("hasuntil", 2) == 1 {
			v := vpInt64("until")
			f.Until = &v
			want = vpAnd(want, v >= 0)
		}
		if f.Since != nil && f.Until != nil {
			vpAssume(*f.Since <= *f.Until) // since > until: not claimed either way
		}
		if vpChoice("haslimit", 2) == 1 {
			v := vpInt64("limit")
			f.Limit = &v
			want = vpAnd(want, v >= 0)
		}
		vpAssert(f.Valid() == want, "C11.filter-valid")
		nf := vpChoice("nfilters", 3) // 0: no filter (arity), 1, 2 (second one valid)
		var fs []*ReqFilter
		if nf >= 1 {
			fs = append(fs, f)
		}
		if nf == 2 {
			fs = append(fs, &ReqFilter{})
		}
		var msg ClientMsg = &ClientReqMsg{SubscriptionID: vpString("sub", 1), ReqFilters: fs}
		if vpChoice("count", 2) == 1 {
			msg = &ClientCountMsg{SubscriptionID: vpString("sub", 1), ReqFilters: fs}
		}
		vpAssert(ValidClientMsg(msg) == vpAnd(want, nf >= 1), "C11.req-msg-valid")
	case 2:
		vpAssert(ValidClientMsg(&ClientCloseMsg{SubscriptionID: vpString("sub", 1)}), "C11.close-valid")
		vpAssert(!ValidClientMsg(nil), "C11.nil-invalid")
	}
	vpReach("end")
}

// C11 O3: a well-formed text - insignificant JSON whitespace before '[' and
// before the label allowed - is dispatched to the decoder its label names;
// anything dispatched carries that label. The five decoders are recording stubs.
func vpH_C11_label() {
	labels := []string{"EVENT", "REQ", "CLOSE", "AUTH", "COUNT", "event", "NOTICE", ""}
	li := vpChoice("label", len(labels))
	ws1 := vpString("ws1", vpChoice("ws1len", 3))
	ws2 := vpString("ws2", vpChoice("ws2len", 3))
	vpAssume(vpAllBytesIn(ws1, " \t\n\r"))
	vpAssume(vpAllBytesIn(ws2, " \t\n\r"))
	evJSON := `{"id":"` + vpHex64 + `","pubkey":"` + vpHex64 + `","created_at":1,"kind":1,"tags":[],"content":"","sig":"` + vpHex128 + `"}`
	rest := map[string]string{"EVENT": "," + evJSON + "]", "AUTH": "," + evJSON + "]", "REQ": `,"x",{}]`, "COUNT": `,"x",{}]`, "CLOSE": `,"x"]`}[labels[li]]
	if rest == "" {
		rest = `,"x"]`
	}
	text := ws1 + "[" + ws2 + "\"" + labels[li] + "\"" + rest
	called := ""
	if vpSymbolic() {
		vpStub("(*github.com/high-moctane/mocrelay.ClientEventMsg).UnmarshalJSON", func(m *ClientEventMsg, b []byte) error { called = "EVENT"; return nil })
		vpStub("(*github.com/high-moctane/mocrelay.ClientReqMsg).UnmarshalJSON", func(m *ClientReqMsg, b []byte) error { called = "REQ"; return nil })
		vpStub("(*github.com/high-moctane/mocrelay.ClientCloseMsg).UnmarshalJSON", func(m *ClientCloseMsg, b []byte) error { called = "CLOSE"; return nil })
		vpStub("(*github.com/high-moctane/mocrelay.ClientAuthMsg).UnmarshalJSON", func(m *ClientAuthMsg, b []byte) error { called = "AUTH"; return nil })
		vpStub("(*github.com/high-moctane/mocrelay.ClientCountMsg).UnmarshalJSON", func(m *ClientCountMsg, b []byte) error { called = "COUNT"; return nil })
	}
	msg, err := ParseClientMsg([]byte(text))
	if !vpSymbolic() {
		// natively the real decoders run on the complete message
		if li < 5 {
			vpAssert(err == nil && msg != nil && msg.ClientMsgLabel() == labels[li], "C11.label-dispatch")
			if err == nil && msg != nil {
				vpAssert(ValidClientMsg(msg), "C11.dispatched-message-valid")
			}
		} else {
			vpAssert(err != nil, "C11.unknown-label-rejected")
		}
		vpReach("end")
		return
	}
	if li < 5 {
		vpAssert(err == nil && called == labels[li], "C11.label-dispatch")
		if err == nil {
			vpAssert(msg.ClientMsgLabel() == labels[li], "C11.dispatched-type-matches-label")
		}
	} else {
		vpAssert(err != nil && called == "", "C11.unknown-label-rejected")
	}
	vpReach("end")
}
