package mocrelay

import "fmt"

// Shared generators and reference predicates. Shapes (list lengths, which
// fields are present) are vpChoice splits; every leaf value is symbolic.

func vpSym1(name string) string { return vpString(name, 1) }

// vpGenEvent: id/pubkey 1-byte symbolic, kind/created_at free, 0..maxTags tags
// of 1..maxElems elements with 1-byte symbolic names and values.
func vpGenEvent(name string, maxTags, maxElems int) *Event {
	e := &Event{
		ID:        vpSym1(name + ".id"),
		Pubkey:    vpSym1(name + ".pk"),
		Kind:      vpInt64(name + ".kind"),
		CreatedAt: vpInt64(name + ".at"),
		Tags:      []Tag{},
	}
	nt := vpChoice(name+".ntags", maxTags+1)
	for i := 0; i < nt; i++ {
		ne := 1 + vpChoice(name+".nelems", maxElems)
		t := make(Tag, ne)
		for j := range t {
			t[j] = vpSym1(fmt.Sprintf("%s.t%d.%d", name, i, j))
		}
		e.Tags = append(e.Tags, t)
	}
	return e
}

// vpGenStrList: absent (nil) / empty / 1..maxLen symbolic 1-byte strings.
func vpGenStrList(name string, maxLen int) []string {
	k := vpChoice(name+".shape", maxLen+2)
	if k == 0 {
		return nil
	}
	l := make([]string, k-1)
	for i := range l {
		l[i] = vpSym1(fmt.Sprintf("%s.%d", name, i))
	}
	return l
}

func vpGenIntList(name string, maxLen int) []int64 {
	k := vpChoice(name+".shape", maxLen+2)
	if k == 0 {
		return nil
	}
	l := make([]int64, k-1)
	for i := range l {
		l[i] = vpInt64(fmt.Sprintf("%s.%d", name, i))
	}
	return l
}

func vpGenOptInt(name string) *int64 {
	if vpChoice(name+".present", 2) == 0 {
		return nil
	}
	v := vpInt64(name)
	return &v
}

// vpGenFilter: every field absent / empty / up to maxList values; tag
// conditions: absent, or 1..maxKeys keys (pairwise distinct names) each with
// 0..maxList values.
func vpGenFilter(name string, maxList, maxKeys int, withLimit bool) *ReqFilter {
	return vpGenFilterX(name, maxList, maxKeys, withLimit, false)
}

// vpGenFilterX: with emptyTagMap one more shape is generated: a non-nil, empty Tags map.
func vpGenFilterX(name string, maxList, maxKeys int, withLimit, emptyTagMap bool) *ReqFilter {
	f := &ReqFilter{}
	f.IDs = vpGenStrList(name+".ids", maxList)
	f.Authors = vpGenStrList(name+".authors", maxList)
	f.Kinds = vpGenIntList(name+".kinds", maxList)
	nshapes := maxKeys + 1
	if emptyTagMap {
		nshapes++
	}
	nk := vpChoice(name+".ntagkeys", nshapes)
	if nk == maxKeys+1 {
		f.Tags = map[string][]string{}
		nk = 0
	}
	if nk > 0 {
		f.Tags = map[string][]string{}
		var names []string
		for i := 0; i < nk; i++ {
			n := vpSym1(fmt.Sprintf("%s.tag%d", name, i))
			for _, o := range names {
				vpAssume(o != n)
			}
			names = append(names, n)
			nv := vpChoice(name+".ntagvals", maxList+1)
			vals := make([]string, nv)
			for j := range vals {
				vals[j] = vpSym1(fmt.Sprintf("%s.tag%d.%d", name, i, j))
			}
			f.Tags[n] = vals
		}
	}
	f.Since = vpGenOptInt(name + ".since")
	f.Until = vpGenOptInt(name + ".until")
	if withLimit {
		f.Limit = vpGenOptInt(name + ".limit")
	}
	return f
}

// specIn / specMatch: the NIP-01 predicate of the property statement, built as
// one Boolean term (no short-circuit, hence no case split).
func specInStr(l []string, v string) bool {
	r := false
	for _, x := range l {
		r = vpOr(r, x == v)
	}
	return r
}

func specMatch(f *ReqFilter, e *Event) bool {
	r := true
	if f.IDs != nil {
		r = vpAnd(r, specInStr(f.IDs, e.ID))
	}
	if f.Authors != nil {
		r = vpAnd(r, specInStr(f.Authors, e.Pubkey))
	}
	if f.Kinds != nil {
		in := false
		for _, k := range f.Kinds {
			in = vpOr(in, k == e.Kind)
		}
		r = vpAnd(r, in)
	}
	for name, vals := range f.Tags {
		some := false
		for _, t := range e.Tags {
			v := ""
			if len(t) >= 2 {
				v = t[1]
			}
			some = vpOr(some, vpAnd(t[0] == name, specInStr(vals, v)))
		}
		r = vpAnd(r, some)
	}
	if f.Since != nil {
		r = vpAnd(r, *f.Since <= e.CreatedAt)
	}
	if f.Until != nil {
		r = vpAnd(r, e.CreatedAt <= *f.Until)
	}
	return r
}

func specMatchAny(fs []*ReqFilter, e *Event) bool {
	r := false
	for _, f := range fs {
		r = vpOr(r, specMatch(f, e))
	}
	return r
}

func vpB2I(b bool) int64 { return vpIteInt64(b, 1, 0) }

// vpGenFilterFocused: a reduced family of filter shapes for the quick tier:
// (0) no selective condition, every subset of since/until/limit; (1) one
// selective condition with one value, with nothing / limit / since+until;
// (2) one empty list or an empty tag map; (3) two selective conditions.
func vpGenFilterFocused(name string) *ReqFilter {
	f := &ReqFilter{}
	sel := func(k int) {
		switch k {
		case 0:
			f.IDs = []string{vpSym1(name + ".id")}
		case 1:
			f.Authors = []string{vpSym1(name + ".author")}
		case 2:
			f.Kinds = []int64{vpInt64(name + ".kind")}
		case 3:
			f.Tags = map[string][]string{vpSym1(name + ".tag"): {vpSym1(name + ".tagval")}}
		}
	}
	switch vpChoice(name+".mode", 4) {
	case 0:
		f.Since = vpGenOptInt(name + ".since")
		f.Until = vpGenOptInt(name + ".until")
		f.Limit = vpGenOptInt(name + ".limit")
	case 1:
		sel(vpChoice(name+".sel", 4))
		switch vpChoice(name+".extra", 3) {
		case 1:
			l := vpInt64(name + ".limit")
			f.Limit = &l
		case 2:
			a, b := vpInt64(name+".since"), vpInt64(name+".until")
			f.Since, f.Until = &a, &b
		}
	case 2:
		switch vpChoice(name+".empty", 5) {
		case 0:
			f.IDs = []string{}
		case 1:
			f.Authors = []string{}
		case 2:
			f.Kinds = []int64{}
		case 3:
			f.Tags = map[string][]string{vpSym1(name + ".tag"): {}}
		case 4:
			f.Tags = map[string][]string{}
		}
	case 3:
		pairs := [][2]int{{0, 1}, {1, 2}, {2, 3}, {1, 3}}
		p := pairs[vpChoice(name+".pair", len(pairs))]
		sel(p[0])
		sel(p[1])
		if vpChoice(name+".haslimit", 2) == 1 {
			l := vpInt64(name + ".limit")
			f.Limit = &l
		}
	}
	return f
}

// vpCapacity: a free store capacity >= min. Natively (replay of a model) a huge
// value is clamped: the runtime would try to pre-size maps with that many
// buckets; for the short histories explored every capacity above their length
// behaves identically.
func vpCapacity(min int) int {
	c := vpInt("cap")
	vpAssume(c >= min)
	if !vpSymbolic() && c > 1<<20 {
		c = 1 << 20
	}
	return c
}

// vpGenFilterSmall: six filter shapes (used where the history is long): match
// everything, one author, one kind, one id, a since/until window, a limit.
func vpGenFilterSmall(name string) *ReqFilter {
	f := &ReqFilter{}
	switch vpChoice(name+".small", 6) {
	case 1:
		f.Authors = []string{vpSym1(name + ".author")}
	case 2:
		f.Kinds = []int64{vpInt64(name + ".kind")}
	case 3:
		f.IDs = []string{vpSym1(name + ".id")}
	case 4:
		a, b := vpInt64(name+".since"), vpInt64(name+".until")
		f.Since, f.Until = &a, &b
	case 5:
		l := vpInt64(name + ".limit")
		f.Limit = &l
	}
	return f
}

// vpIsRejection: a NOTICE, or a rejecting OK / a CLOSED (the statement allows all three;
// which event or subscription they name is the sender's knowledge).
func vpIsRejection(m ServerMsg) bool {
	switch x := m.(type) {
	case *ServerNoticeMsg:
		return true
	case *ServerOKMsg:
		return !x.Accepted
	case *ServerClosedMsg:
		return true
	}
	return false
}

// vpUnchanged: got is the message want, unchanged. The same object is; a different object
// of a different type or with different scalar fields is not; an equal-looking copy whose
// nested event/filters are the same objects is; any other copy is outside what this
// comparison can judge (the path ends INCONCLUSIVE rather than accusing a faithful copy).
func vpUnchanged(got, want any) bool {
	if vpSameObject(got, want) {
		return true
	}
	sameFilters := func(a, b []*ReqFilter) bool {
		if len(a) != len(b) {
			return false
		}
		for i := range a {
			if a[i] != b[i] {
				vpUnsupported("a message was forwarded as a copy with copied filters: identity comparison cannot judge it")
			}
		}
		return true
	}
	sameEvent := func(a, b *Event) bool {
		if a != b {
			vpUnsupported("a message was forwarded as a copy with a copied event: identity comparison cannot judge it")
		}
		return true
	}
	switch w := want.(type) {
	case *ClientEventMsg:
		g, ok := got.(*ClientEventMsg)
		return ok && g != nil && sameEvent(g.Event, w.Event)
	case *ClientAuthMsg:
		g, ok := got.(*ClientAuthMsg)
		return ok && g != nil && sameEvent(g.Event, w.Event)
	case *ClientReqMsg:
		g, ok := got.(*ClientReqMsg)
		return ok && g != nil && g.SubscriptionID == w.SubscriptionID && sameFilters(g.ReqFilters, w.ReqFilters)
	case *ClientCountMsg:
		g, ok := got.(*ClientCountMsg)
		return ok && g != nil && g.SubscriptionID == w.SubscriptionID && sameFilters(g.ReqFilters, w.ReqFilters)
	case *ClientCloseMsg:
		g, ok := got.(*ClientCloseMsg)
		return ok && g != nil && g.SubscriptionID == w.SubscriptionID
	case *ServerEOSEMsg:
		g, ok := got.(*ServerEOSEMsg)
		return ok && g != nil && g.SubscriptionID == w.SubscriptionID
	case *ServerEventMsg:
		g, ok := got.(*ServerEventMsg)
		return ok && g != nil && g.SubscriptionID == w.SubscriptionID && sameEvent(g.Event, w.Event)
	case *ServerNoticeMsg:
		g, ok := got.(*ServerNoticeMsg)
		return ok && g != nil && g.Message == w.Message
	case *ServerOKMsg:
		g, ok := got.(*ServerOKMsg)
		return ok && g != nil && g.EventID == w.EventID && g.Accepted == w.Accepted && g.Msg == w.Msg && g.MsgPrefix == w.MsgPrefix
	case *ServerAuthMsg:
		g, ok := got.(*ServerAuthMsg)
		return ok && g != nil && g.Challenge == w.Challenge
	case *ServerClosedMsg:
		g, ok := got.(*ServerClosedMsg)
		return ok && g != nil && g.SubscriptionID == w.SubscriptionID && g.Msg == w.Msg && g.MsgPrefix == w.MsgPrefix
	case *ServerCountMsg:
		g, ok := got.(*ServerCountMsg)
		if !ok || g == nil || g.SubscriptionID != w.SubscriptionID || g.Count != w.Count {
			return false
		}
		if (g.Approximate == nil) != (w.Approximate == nil) {
			return false
		}
		return g.Approximate == nil || *g.Approximate == *w.Approximate
	}
	return false
}
