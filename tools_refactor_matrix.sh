#!/bin/bash
# tools_refactor_matrix.sh [name...]   run every stored behaviour-preserving refactoring (or the
# named ones, e.g. C18-r2) against the quick checks of the properties its area touches, in a
# scratch worktree of /repo (never /repo itself). A refactoring keeps the property, so exit 1
# (VIOLATION) is a false alarm of the checks; exit 0 (pass) or 2 (INCONCLUSIVE: a harness could
# not follow the new code) are acceptable. Writes refactorings/last_matrix.log and README.md.
cd /verif || exit 2
declare -A MAP=( [C03]="C03 C04 C05 C15 C16" [C04]="C04 C03 C05 C15 C16" [C06]="C06 C14 C16" [C07]="C07 C13" [C08]="C08 C09 C13" [C09]="C09 C08 C13" [C12]="C12 C13" [C13]="C13 C07 C12" [C14]="C14 C06" [C15]="C15 C03 C04 C05" [C16]="C16 C03 C04" [C17]="C17 C18 C13" [C18]="C18 C17" [C19]="C19 C13" [C20]="C20 C17" [C10]="C10 C11 C01" )
names="$@"
[ -z "$names" ] && names=$(ls -d refactorings/C??-r? | xargs -n1 basename)
log=refactorings/last_matrix.log
[ $# -eq 0 ] && : > $log
for n in $names; do
  P=${n:0:3}
  echo "#### $n" >> $log
  SEED_REPO=/tmp/refacrepo ./tools_seed_eval.sh /verif/refactorings/$n/patch.diff ${MAP[$P]} 2>&1 | grep -E "^==|^VIOLATION|^  harness|^INCONCLUSIVE|BUILD|apply" | cut -c1-400 >> $log
done
python3 tools_refactor_table.py $log
