package prometheus

import (
	"context"
	"strconv"

	"github.com/high-moctane/mocrelay"
	"github.com/prometheus/client_golang/prometheus"
	dto "github.com/prometheus/client_model/go"
)

func init() {
	vpHarnesses["vpH_C19_public"] = vpH_C19_public
}

// This file depends only on the package's constructor and on the EXPORTED metric
// names, so that a refactoring of the counters' internal types cannot make the
// check unavailable.

// Engine-side fakes for the Prometheus collectors: integer cells. Natively the
// real client_golang objects are used and read back through Write(dto).

type vpFakeGauge struct{ v int64 }

func (g *vpFakeGauge) Desc() *prometheus.Desc           { return nil }
func (g *vpFakeGauge) Write(*dto.Metric) error          { return nil }
func (g *vpFakeGauge) Describe(chan<- *prometheus.Desc) {}
func (g *vpFakeGauge) Collect(chan<- prometheus.Metric) {}
func (g *vpFakeGauge) Set(x float64)                    { g.v = int64(x) }
func (g *vpFakeGauge) Inc()                             { g.v++ }
func (g *vpFakeGauge) Dec()                             { g.v-- }
func (g *vpFakeGauge) Add(x float64)                    { g.v += int64(x) }
func (g *vpFakeGauge) Sub(x float64)                    { g.v -= int64(x) }
func (g *vpFakeGauge) SetToCurrentTime()                {}
func (g *vpFakeGauge) Observe(float64)                  {}

type vpFakeCounter struct{ v int64 }

func (c *vpFakeCounter) Desc() *prometheus.Desc           { return nil }
func (c *vpFakeCounter) Write(*dto.Metric) error          { return nil }
func (c *vpFakeCounter) Describe(chan<- *prometheus.Desc) {}
func (c *vpFakeCounter) Collect(chan<- prometheus.Metric) {}
func (c *vpFakeCounter) Inc()                             { c.v++ }
func (c *vpFakeCounter) Add(x float64)                    { c.v += int64(x) }

var vpFakeVecs map[*prometheus.CounterVec]map[string]*vpFakeCounter

func vpFakeWithLabelValues(v *prometheus.CounterVec, lvs ...string) prometheus.Counter {
	m := vpFakeVecs[v]
	if m == nil {
		m = map[string]*vpFakeCounter{}
		vpFakeVecs[v] = m
	}
	c := m[lvs[0]]
	if c == nil {
		c = &vpFakeCounter{}
		m[lvs[0]] = c
	}
	return c
}

func vpGaugeVal(g prometheus.Gauge) int64 {
	if f, ok := g.(*vpFakeGauge); ok {
		return f.v
	}
	var m dto.Metric
	if err := g.Write(&m); err != nil {
		panic(err)
	}
	return int64(m.GetGauge().GetValue())
}

func vpCounterVal(v *prometheus.CounterVec, label string) int64 {
	if vpSymbolic() {
		if c := vpFakeVecs[v][label]; c != nil {
			return c.v
		}
		return 0
	}
	var m dto.Metric
	if err := v.WithLabelValues(label).Write(&m); err != nil {
		panic(err)
	}
	return int64(m.GetCounter().GetValue())
}

func vpIndexOf(l []string, v string) int {
	for i, x := range l {
		if x == v {
			return i
		}
	}
	return -1
}

// kinds are int64 and the middleware does not validate them: besides ordinary kinds the
// set holds values that alias an ordinary one under a narrowing conversion (65537 = 1 mod
// 2^16, 2^32+5 = 5 mod 2^32) and a negative one; each must be counted under its own label
var vpKinds = [...]int64{0, 1, 5, 30000, 65537, 1<<32 + 5, -1}

type vpFakeRegisterer struct{}

func (vpFakeRegisterer) Register(prometheus.Collector) error  { return nil }
func (vpFakeRegisterer) MustRegister(...prometheus.Collector) {}
func (vpFakeRegisterer) Unregister(prometheus.Collector) bool { return true }

// C19 through the constructor: the Prometheus collectors the constructor creates
// are captured by name (engine-side stubs of NewGauge/NewCounterVec/NewSummary).
func vpH_C19_public() {
	if !vpSymbolic() {
		vpReach("end")
		return
	}
	vpFakeVecs = map[*prometheus.CounterVec]map[string]*vpFakeCounter{}
	gauges := map[string]prometheus.Gauge{}
	vecs := map[string]*prometheus.CounterVec{}
	vpStub("github.com/prometheus/client_golang/prometheus.NewGauge", func(o prometheus.GaugeOpts) prometheus.Gauge {
		g := &vpFakeGauge{}
		gauges[o.Name] = g
		return g
	})
	vpStub("github.com/prometheus/client_golang/prometheus.NewCounterVec", func(o prometheus.CounterOpts, labels []string) *prometheus.CounterVec {
		v := new(prometheus.CounterVec)
		vecs[o.Name] = v
		return v
	})
	vpStub("github.com/prometheus/client_golang/prometheus.NewSummary", func(o prometheus.SummaryOpts) prometheus.Summary { return &vpFakeGauge{} })
	vpStub("(*github.com/prometheus/client_golang/prometheus.CounterVec).WithLabelValues", vpFakeWithLabelValues)
	base := newSimplePrometheusMiddlewareBase(vpFakeRegisterer{})
	if gauges["mocrelay_connection_count"] == nil || gauges["mocrelay_req_count"] == nil ||
		vecs["mocrelay_recv_msg_total"] == nil || vecs["mocrelay_recv_event_total"] == nil || vecs["mocrelay_send_msg_total"] == nil {
		// the collectors are not created through prometheus.NewGauge / NewCounterVec under these
		// names (a custom Collector?): the engine-side fakes cannot observe them
		vpUnsupported("the metrics are not created through prometheus.NewGauge/NewCounterVec: outside the collector fakes of this harness")
	}
	vpRunC19(base, gauges["mocrelay_connection_count"], gauges["mocrelay_req_count"], vecs["mocrelay_recv_msg_total"], vecs["mocrelay_recv_event_total"], vecs["mocrelay_send_msg_total"])
}

// vpRunC19: histories over two sessions; after every step the gauges and counters
// equal the ghost counts, and every call hands back exactly the same message.
func vpRunC19(base mocrelay.SimpleMiddlewareBase, connG, reqG prometheus.Gauge, recvVec, kindVec, sendVec *prometheus.CounterVec) {
	steps := 4
	if vpTier() > 0 {
		steps = 5
	}
	var ctxs [2]context.Context
	live := [2]bool{}
	open := [2][]string{}
	recvCnt := map[string]int64{}
	sendCnt := map[string]int64{}
	kindCnt := map[string]int64{}
	conn0 := vpGaugeVal(connG)
	req0 := vpGaugeVal(reqG)
	for k := 0; k < steps; k++ {
		s := vpChoice("session", 2)
		op := vpChoice("op", 9)
		if k == 0 {
			vpAssume(s == 0 && op == 0) // symmetry: the first step starts session 0
		}
		switch op {
		case 0: // session start
			vpAssume(!live[s])
			c, err := base.ServeNostrStart(context.Background())
			vpAssert(err == nil, "C19.start")
			ctxs[s], live[s], open[s] = c, true, nil
		case 1: // session end (subscriptions possibly still open)
			vpAssume(live[s])
			vpAssert(base.ServeNostrEnd(ctxs[s]) == nil, "C19.end")
			live[s], open[s] = false, nil
		case 2, 3, 4, 5: // client message
			vpAssume(live[s])
			var msg mocrelay.ClientMsg
			label := ""
			switch op {
			case 2:
				id := vpString("sub", 1)
				msg, label = &mocrelay.ClientReqMsg{SubscriptionID: id, ReqFilters: []*mocrelay.ReqFilter{{}}}, "REQ"
				if vpIndexOf(open[s], id) < 0 {
					open[s] = append(open[s], id)
				}
			case 3:
				id := vpString("sub", 1)
				msg, label = &mocrelay.ClientCloseMsg{SubscriptionID: id}, "CLOSE"
				if i := vpIndexOf(open[s], id); i >= 0 {
					open[s] = append(open[s][:i:i], open[s][i+1:]...)
				}
			case 4:
				kind := vpKinds[vpChoice("kind", len(vpKinds))]
				msg, label = &mocrelay.ClientEventMsg{Event: &mocrelay.Event{ID: "e", Kind: kind, Tags: []mocrelay.Tag{}}}, "EVENT"
				kindCnt[strconv.FormatInt(kind, 10)]++
			case 5:
				if vpChoice("other", 2) == 0 {
					msg, label = &mocrelay.ClientAuthMsg{Event: &mocrelay.Event{ID: "a", Tags: []mocrelay.Tag{}}}, "AUTH"
				} else {
					msg, label = &mocrelay.ClientCountMsg{SubscriptionID: "c", ReqFilters: []*mocrelay.ReqFilter{{}}}, "COUNT"
				}
			}
			recvCnt[label]++
			cm, sm, err := base.ServeNostrClientMsg(ctxs[s], msg)
			vpAssert(err == nil && sm == nil, "C19.client-no-reply")
			n := 0
			for got := range cm {
				vpAssert(vpUnchanged(got, msg), "C19.client-unaltered")
				n++
			}
			vpAssert(n == 1, "C19.client-exactly-once")
		default: // server message
			vpAssume(live[s])
			var msg mocrelay.ServerMsg
			label := ""
			switch op {
			case 6:
				msg, label = mocrelay.NewServerEOSEMsg(vpString("sub", 1)), "EOSE"
			case 7:
				id := vpString("sub", 1)
				msg, label = mocrelay.NewServerClosedMsg(id, "", "x"), "CLOSED"
				if i := vpIndexOf(open[s], id); i >= 0 {
					open[s] = append(open[s][:i:i], open[s][i+1:]...)
				}
			case 8:
				switch vpChoice("other", 3) {
				case 0:
					msg, label = mocrelay.NewServerEventMsg("s", &mocrelay.Event{ID: "e", Tags: []mocrelay.Tag{}}), "EVENT"
				case 1:
					msg, label = mocrelay.NewServerOKMsg("e", true, "", ""), "OK"
				case 2:
					msg, label = mocrelay.NewServerNoticeMsg("n"), "NOTICE"
				}
			}
			sendCnt[label]++
			ch, err := base.ServeNostrServerMsg(ctxs[s], msg)
			vpAssert(err == nil, "C19.server-no-error")
			n := 0
			for got := range ch {
				vpAssert(vpUnchanged(got, msg), "C19.server-unaltered")
				n++
			}
			vpAssert(n == 1, "C19.server-exactly-once")
		}
		// quiescent point: exported values equal reality
		nlive, nopen := int64(0), int64(0)
		for i := 0; i < 2; i++ {
			if live[i] {
				nlive++
				nopen += int64(len(open[i]))
			}
		}
		vpAssert(vpGaugeVal(connG)-conn0 == nlive, "C19.connection-gauge")
		vpAssert(vpGaugeVal(reqG)-req0 == nopen, "C19.subscription-gauge")
		for _, l := range []string{"EVENT", "REQ", "CLOSE", "AUTH", "COUNT"} {
			vpAssert(vpCounterVal(recvVec, l) == recvCnt[l], "C19.recv-counter")
		}
		for _, l := range []string{"EOSE", "EVENT", "NOTICE", "OK", "CLOSED"} {
			vpAssert(vpCounterVal(sendVec, l) == sendCnt[l], "C19.send-counter")
		}
		for _, kd := range vpKinds {
			l := strconv.FormatInt(kd, 10)
			vpAssert(vpCounterVal(kindVec, l) == kindCnt[l], "C19.kind-counter")
		}
	}
	vpReach("end")
}

// vpUnchanged: got is the message want, unchanged. The same object is; a different object
// of a different type or with different scalar fields is not; an equal-looking copy whose
// nested event/filters are the same objects is; any other copy is outside what this
// comparison can judge (the path ends INCONCLUSIVE rather than accusing a faithful copy).
func vpUnchanged(got, want any) bool {
	if vpSameObject(got, want) {
		return true
	}
	sameFilters := func(a, b []*mocrelay.ReqFilter) bool {
		if len(a) != len(b) {
			return false
		}
		for i := range a {
			if a[i] != b[i] {
				vpUnsupported("a message was forwarded as a copy with copied filters: identity comparison cannot judge it")
			}
		}
		return true
	}
	sameEvent := func(a, b *mocrelay.Event) bool {
		if a != b {
			vpUnsupported("a message was forwarded as a copy with a copied event: identity comparison cannot judge it")
		}
		return true
	}
	switch w := want.(type) {
	case *mocrelay.ClientEventMsg:
		g, ok := got.(*mocrelay.ClientEventMsg)
		return ok && g != nil && sameEvent(g.Event, w.Event)
	case *mocrelay.ClientAuthMsg:
		g, ok := got.(*mocrelay.ClientAuthMsg)
		return ok && g != nil && sameEvent(g.Event, w.Event)
	case *mocrelay.ClientReqMsg:
		g, ok := got.(*mocrelay.ClientReqMsg)
		return ok && g != nil && g.SubscriptionID == w.SubscriptionID && sameFilters(g.ReqFilters, w.ReqFilters)
	case *mocrelay.ClientCountMsg:
		g, ok := got.(*mocrelay.ClientCountMsg)
		return ok && g != nil && g.SubscriptionID == w.SubscriptionID && sameFilters(g.ReqFilters, w.ReqFilters)
	case *mocrelay.ClientCloseMsg:
		g, ok := got.(*mocrelay.ClientCloseMsg)
		return ok && g != nil && g.SubscriptionID == w.SubscriptionID
	case *mocrelay.ServerEOSEMsg:
		g, ok := got.(*mocrelay.ServerEOSEMsg)
		return ok && g != nil && g.SubscriptionID == w.SubscriptionID
	case *mocrelay.ServerEventMsg:
		g, ok := got.(*mocrelay.ServerEventMsg)
		return ok && g != nil && g.SubscriptionID == w.SubscriptionID && sameEvent(g.Event, w.Event)
	case *mocrelay.ServerNoticeMsg:
		g, ok := got.(*mocrelay.ServerNoticeMsg)
		return ok && g != nil && g.Message == w.Message
	case *mocrelay.ServerOKMsg:
		g, ok := got.(*mocrelay.ServerOKMsg)
		return ok && g != nil && g.EventID == w.EventID && g.Accepted == w.Accepted && g.Msg == w.Msg && g.MsgPrefix == w.MsgPrefix
	case *mocrelay.ServerAuthMsg:
		g, ok := got.(*mocrelay.ServerAuthMsg)
		return ok && g != nil && g.Challenge == w.Challenge
	case *mocrelay.ServerClosedMsg:
		g, ok := got.(*mocrelay.ServerClosedMsg)
		return ok && g != nil && g.SubscriptionID == w.SubscriptionID && g.Msg == w.Msg && g.MsgPrefix == w.MsgPrefix
	case *mocrelay.ServerCountMsg:
		g, ok := got.(*mocrelay.ServerCountMsg)
		if !ok || g == nil || g.SubscriptionID != w.SubscriptionID || g.Count != w.Count {
			return false
		}
		if (g.Approximate == nil) != (w.Approximate == nil) {
			return false
		}
		return g.Approximate == nil || *g.Approximate == *w.Approximate
	}
	return false
}
