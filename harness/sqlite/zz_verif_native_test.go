package sqlite

// Native confirmations for C06/C14 counterexamples against the REAL store: an
// in-memory SQLite database through database/sql and mattn/go-sqlite3.

import (
	"context"
	"database/sql"
	"database/sql/driver"
	"errors"
	"fmt"
	"os"
	"path/filepath"
	"strings"

	"github.com/high-moctane/mocrelay"
	sqlite3 "github.com/mattn/go-sqlite3"
)

func init() { vpNative = vpNativeScenario }

func vpHex(c string, n int) string { return strings.Repeat(c, n) }

func vpOpenMem() *sql.DB {
	db, err := sql.Open("sqlite3", ":memory:")
	if err != nil {
		panic(err)
	}
	db.SetMaxOpenConns(1)
	if err := Migrate(context.Background(), db); err != nil {
		panic(err)
	}
	return db
}

func vpEv(id, pk string, kind, at int64, tags ...mocrelay.Tag) *mocrelay.Event {
	if tags == nil {
		tags = []mocrelay.Tag{}
	}
	return &mocrelay.Event{ID: vpHex(id, 64), Pubkey: vpHex(pk, 64), Kind: kind, CreatedAt: at, Tags: tags, Content: "c", Sig: vpHex("f", 128)}
}

// vpNativeScenario returns true when the real store shows the defect.
func vpNativeScenario(scenario string, in map[string]string) bool {
	ctx := context.Background()
	db := vpOpenMem()
	defer db.Close()
	const seed = 7
	must := func(err error) {
		if err != nil {
			panic(err)
		}
	}
	switch scenario {
	case "tombstone-extra-element":
		t := vpEv("1", "a", 1, 10)
		k := vpEv("2", "a", 5, 20, mocrelay.Tag{"e", t.ID, "wss://relay.example"})
		must(insertEvents(ctx, db, seed, []*mocrelay.Event{t}))
		must(insertEvents(ctx, db, seed, []*mocrelay.Event{k}))
		got, err := queryEvent(ctx, db, seed, []*mocrelay.ReqFilter{{}}, NoLimit)
		must(err)
		for _, e := range got {
			if e.ID == t.ID {
				return true // the referenced event is still served
			}
		}
		return false
	case "limit-zero":
		must(insertEvents(ctx, db, seed, []*mocrelay.Event{vpEv("1", "a", 1, 10), vpEv("2", "a", 1, 20)}))
		zero := int64(0)
		got, err := queryEvent(ctx, db, seed, []*mocrelay.ReqFilter{{Limit: &zero}}, NoLimit)
		must(err)
		return len(got) != 0
	case "empty-filter-list":
		must(insertEvents(ctx, db, seed, []*mocrelay.Event{vpEv("1", "a", 1, 10)}))
		got, err := queryEvent(ctx, db, seed, []*mocrelay.ReqFilter{}, NoLimit)
		if err != nil {
			return false
		}
		return len(got) != 0
	}
	panic("unknown native scenario " + scenario)
}

// ---------------------------------------------------------------------------
// C14: fault-injecting database/sql driver around the real SQLite driver. The
// k-th driver-level operation (begin, prepare, exec, commit: the same counting
// as the engine-side stubs) fails.

type vpFaultState struct {
	k, n    int
	tripped bool
}

var vpFault = &vpFaultState{}

func (f *vpFaultState) step() error {
	f.n++
	if f.k > 0 && f.n == f.k {
		f.tripped = true
		return errors.New("injected driver fault")
	}
	return nil
}

type vpFaultDriver struct{ inner driver.Driver }

func (d vpFaultDriver) Open(name string) (driver.Conn, error) {
	c, err := d.inner.Open(name)
	if err != nil {
		return nil, err
	}
	return &vpFaultConn{c}, nil
}

type vpFaultConn struct{ driver.Conn }

func (c *vpFaultConn) BeginTx(ctx context.Context, opts driver.TxOptions) (driver.Tx, error) {
	if err := vpFault.step(); err != nil {
		return nil, err
	}
	tx, err := c.Conn.(driver.ConnBeginTx).BeginTx(ctx, opts)
	if err != nil {
		return nil, err
	}
	return &vpFaultTx{tx}, nil
}

func (c *vpFaultConn) PrepareContext(ctx context.Context, q string) (driver.Stmt, error) {
	if err := vpFault.step(); err != nil {
		return nil, err
	}
	st, err := c.Conn.(driver.ConnPrepareContext).PrepareContext(ctx, q)
	if err != nil {
		return nil, err
	}
	return &vpFaultStmt{st}, nil
}

type vpFaultTx struct{ driver.Tx }

func (t *vpFaultTx) Commit() error {
	if err := vpFault.step(); err != nil {
		t.Tx.Rollback() // a failed commit leaves no open transaction
		return err
	}
	return t.Tx.Commit()
}

type vpFaultStmt struct{ driver.Stmt }

func (s *vpFaultStmt) ExecContext(ctx context.Context, args []driver.NamedValue) (driver.Result, error) {
	if err := vpFault.step(); err != nil {
		return nil, err
	}
	return s.Stmt.(driver.StmtExecContext).ExecContext(ctx, args)
}

func (s *vpFaultStmt) QueryContext(ctx context.Context, args []driver.NamedValue) (driver.Rows, error) {
	return s.Stmt.(driver.StmtQueryContext).QueryContext(ctx, args)
}

var vpFaultRegistered bool

func vpOpenFaulty() *sql.DB {
	if !vpFaultRegistered {
		sql.Register("vpfault-sqlite3", vpFaultDriver{&sqlite3.SQLiteDriver{}})
		vpFaultRegistered = true
	}
	vpFault.k, vpFault.n, vpFault.tripped = 0, 0, false
	db, err := sql.Open("vpfault-sqlite3", ":memory:")
	if err != nil {
		panic(err)
	}
	db.SetMaxOpenConns(1)
	if err := Migrate(context.Background(), db); err != nil {
		panic(err)
	}
	return db
}

func vpListIDs(db *sql.DB) string {
	vpFault.k = 0
	got, err := queryEvent(context.Background(), db, 7, []*mocrelay.ReqFilter{{}}, NoLimit)
	if err != nil {
		panic(err)
	}
	s := ""
	for _, e := range got {
		s += e.ID[:2] + fmt.Sprint(e.CreatedAt) + ","
	}
	return s
}

// vpNativeAtomicity: the REAL property on the real store for one fault point.
// A batch of nsets events (event i carries ntags[i] single-letter tags and, if
// it is a deletion request, references) is inserted with the k-th driver
// operation failing. Returns a description of the defect, or "".
func vpNativeAtomicity(k int, nsets int, ntags []int, preexisting []bool) string {
	ctx := context.Background()
	db := vpOpenFaulty()
	defer db.Close()
	var batch []*mocrelay.Event
	for i := 0; i < nsets; i++ {
		id := string(rune('1' + i))
		var tags []mocrelay.Tag
		for j := 0; j < ntags[i]; j++ {
			tags = append(tags, mocrelay.Tag{"t", fmt.Sprintf("v%d%d", i, j)})
		}
		batch = append(batch, vpEv(id, "a", 1, int64(10+i), tags...))
	}
	// an older event that the batch does not touch
	if err := insertEvents(ctx, db, 7, []*mocrelay.Event{vpEv("9", "a", 1, 1)}); err != nil {
		panic(err)
	}
	for i, pre := range preexisting {
		if pre && i < len(batch) {
			if err := insertEvents(ctx, db, 7, []*mocrelay.Event{batch[i]}); err != nil {
				panic(err)
			}
		}
	}
	before := vpListIDs(db)
	vpFault.k, vpFault.n, vpFault.tripped = k, 0, false
	err := insertEvents(ctx, db, 7, batch)
	tripped := vpFault.tripped
	after := vpListIDs(db)
	if tripped {
		if err == nil {
			return "a driver fault during the batch was not reported"
		}
		if after != before {
			return fmt.Sprintf("failed batch is not atomic: listing %q became %q", before, after)
		}
	} else if err != nil {
		return "error without a fault: " + err.Error()
	}
	// inserting the same batch again leads to the same answers as one successful insertion
	vpFault.k = 0
	if err := insertEvents(ctx, db, 7, batch); err != nil {
		return "retry failed: " + err.Error()
	}
	once := vpListIDs(db)
	if err := insertEvents(ctx, db, 7, batch); err != nil {
		return "second retry failed: " + err.Error()
	}
	if twice := vpListIDs(db); twice != once {
		return fmt.Sprintf("re-inserting the batch is not idempotent: %q then %q", once, twice)
	}
	ref := vpOpenFaulty()
	defer ref.Close()
	insertEvents(ctx, ref, 7, []*mocrelay.Event{vpEv("9", "a", 1, 1)})
	if err := insertEvents(ctx, ref, 7, batch); err != nil {
		panic(err)
	}
	if want := vpListIDs(ref); want != once {
		return fmt.Sprintf("after a failure and a retry the store answers %q, a single successful insertion gives %q", once, want)
	}
	// tag index complete after the retry: every tag of every batch event finds it
	for i, e := range batch {
		for _, t := range e.Tags {
			got, err := queryEvent(ctx, db, 7, []*mocrelay.ReqFilter{{Tags: map[string][]string{t[0]: {t[1]}}}}, NoLimit)
			if err != nil || len(got) != 1 || got[0].ID != e.ID {
				return fmt.Sprintf("after the retry event %d is not found by its tag %v", i, t)
			}
		}
	}
	return ""
}

func init() { vpNativeTx = vpNativeAtomicity }

// ---------------------------------------------------------------------------
// C06 store differential: the scenario on the real store. In memory unless the
// history closes and reopens the database, then on a file in a temporary directory.

func init() { vpNativeStore = vpNativeStoreRun }

func vpNativeStoreRun(sc *vpScenario) [][]*mocrelay.Event {
	ctx := context.Background()
	dsn := ":memory:"
	for _, r := range sc.reopen {
		if r {
			dir, err := os.MkdirTemp("", "vpstore-")
			if err != nil {
				panic(err)
			}
			defer os.RemoveAll(dir)
			dsn = "file:" + filepath.Join(dir, "db.sqlite") + "?_synchronous=OFF&_journal_mode=MEMORY"
			break
		}
	}
	open := func() (*sql.DB, uint32) {
		db, err := sql.Open("sqlite3", dsn)
		if err != nil {
			panic(err)
		}
		db.SetMaxOpenConns(1)
		if err := Migrate(ctx, db); err != nil {
			panic(err)
		}
		seed, err := setOrLoadXXHashSeed(ctx, db)
		if err != nil {
			panic(err)
		}
		return db, seed
	}
	db, seed := open()
	defer func() { db.Close() }()
	var answers [][]*mocrelay.Event
	var batch []*mocrelay.Event
	for i, ev := range sc.events {
		batch = append(batch, ev)
		if !sc.flush[i] {
			continue
		}
		if err := insertEvents(ctx, db, seed, batch); err != nil {
			panic(err)
		}
		if sc.twice[i] {
			if err := insertEvents(ctx, db, seed, batch); err != nil {
				panic(err)
			}
		}
		batch = nil
		if sc.reopen[i] {
			if err := db.Close(); err != nil {
				panic(err)
			}
			db, seed = open()
		}
		got, err := queryEvent(ctx, db, seed, sc.filters, NoLimit)
		if err != nil {
			panic(err)
		}
		answers = append(answers, got)
	}
	return answers
}
