package mocrelay

import (
	"encoding/json"
	"fmt"
	"io"
	"net/http"
)

func init() {
	vpHarnesses["vpH_C20_mux"] = vpH_C20_mux
	vpHarnesses["vpH_C20_kind"] = vpH_C20_kind
	vpHarnesses["vpH_C20_kind_roundtrip"] = vpH_C20_kind_roundtrip
}

type vpRespWriter struct {
	events []string // "status n", "write <body>"
	hdr    http.Header
	// the response headers as they stood when the first body bytes were written (what is sent)
	ctAtWrite, acaoAtWrite string
	wrote                  bool
}

func (w *vpRespWriter) Header() http.Header { return w.hdr }
func (w *vpRespWriter) Write(b []byte) (int, error) {
	if !w.wrote {
		w.wrote = true
		if v := w.hdr["Content-Type"]; len(v) > 0 {
			w.ctAtWrite = v[0]
		}
		if v := w.hdr["Access-Control-Allow-Origin"]; len(v) > 0 {
			w.acaoAtWrite = v[0]
		}
	}
	w.events = append(w.events, "write "+string(b))
	return len(b), nil
}
func (w *vpRespWriter) WriteHeader(code int) {
	w.events = append(w.events, fmt.Sprintf("status %d", code))
}

type vpDefaultHandler struct{ calls int }

func (h *vpDefaultHandler) ServeHTTP(w http.ResponseWriter, r *http.Request) { h.calls++ }

// C20 routing: Upgrade header => relay; else Accept: application/nostr+json =>
// the information document with both headers set before the body; else the
// default handler or the greeting. Header values are symbolic strings.
func vpH_C20_mux() {
	if !vpSymbolic() {
		vpReach("end")
		return
	}
	upgrade := vpString("upgrade", vpChoice("upgradelen", 2))
	accept := vpString("accept", []int{0, 21, 22, 23}[vpChoice("acceptlen", 4)])
	for i := 0; i < len(upgrade); i++ {
		vpAssume(upgrade[i] < 0x80) // header field values are ASCII
	}
	for i := 0; i < len(accept); i++ {
		vpAssume(accept[i] < 0x80)
	}
	w := &vpRespWriter{hdr: http.Header{}}
	relayCalls := 0
	// the request carries the header fields in its real header map (canonical keys, as
	// net/http delivers them), so that the code may look at them with Get, Values or directly;
	// an empty value stands for "header absent"
	reqHdr := http.Header{}
	if upgrade != "" {
		reqHdr["Upgrade"] = []string{upgrade}
	}
	if accept != "" {
		reqHdr["Accept"] = []string{accept}
	}
	// response headers: the real header map of the writer (Add, Set or direct appends all end up there)
	vpStub("(*github.com/high-moctane/mocrelay.Relay).ServeHTTP", func(r *Relay, rw http.ResponseWriter, req *http.Request) { relayCalls++ })
	var marshalled []any
	vpStub("encoding/json.Marshal", func(v any) ([]byte, error) {
		marshalled = append(marshalled, v)
		return []byte("DOC"), nil
	})
	mux := &ServeMux{Relay: &Relay{}}
	doc := &NIP11{Name: "relay"}
	hasDoc := vpChoice("nip11", 2) == 1
	if hasDoc {
		mux.NIP11 = doc
	}
	def := &vpDefaultHandler{}
	hasDef := vpChoice("default", 2) == 1
	if hasDef {
		mux.Default = def
	}
	mux.ServeHTTP(w, &http.Request{Header: reqHdr})

	isUpgrade := upgrade != ""
	isNIP11 := accept == "application/nostr+json"
	if isUpgrade {
		vpAssert(relayCalls == 1 && len(w.events) == 0 && len(w.hdr) == 0 && def.calls == 0, "C20.upgrade-goes-to-the-relay")
	} else if isNIP11 {
		vpAssert(relayCalls == 0 && def.calls == 0, "C20.nip11-not-routed-elsewhere")
		if hasDoc {
			if len(marshalled) == 0 {
				vpUnsupported("the document is not encoded through json.Marshal: outside the JSON environment of this harness")
			}
			vpAssert(len(marshalled) == 1 && marshalled[0] == any(doc), "C20.nip11-document-is-the-configuration")
			// both headers are set before the body is written, the body is the encoded document,
			// written once; further headers are the implementation's business
			body, nbody := -1, 0
			for i, ev := range w.events {
				if len(ev) >= 6 && ev[:6] == "write " {
					nbody++
					if body < 0 {
						body = i
					}
				}
			}
			vpAssert(nbody == 1 && body >= 0 && w.events[body] == "write DOC", "C20.nip11-response-shape")
			vpAssert(w.ctAtWrite == "application/nostr+json" && w.acaoAtWrite == "*", "C20.nip11-headers-then-body")
		}
		// no document configured: what is answered is not stated (only that it is not routed elsewhere)
	} else {
		vpAssert(relayCalls == 0 && len(marshalled) == 0, "C20.other-requests-not-routed-to-relay-or-nip11")
		if hasDef {
			vpAssert(def.calls == 1 && len(w.events) == 0, "C20.other-requests-go-to-the-default-handler")
		} else {
			nw := 0
			for _, ev := range w.events {
				if len(ev) >= 6 && ev[:6] == "write " {
					nw++
				}
			}
			vpAssert(def.calls == 0 && nw >= 1, "C20.greeting")
		}
	}
	vpReach("end")
}

// C20 kind ranges: Nip11Kind marshals a single number when From == To and a
// pair otherwise; decoding what was encoded gives the same (From, To). The
// JSON library is the environment: Marshal records the Go value, the decoder
// returns the corresponding generic tree with json.Number leaves.
// vpH_C20_kind_roundtrip (differential): the engine only picks the witnesses - one per
// value region, among them odd bounds beyond 2^53 (not representable as float64) and
// negative ones -; the native run encodes and decodes them with the real methods, whatever
// they are built from, and demands valid JSON and the same (From, To) back.
func vpH_C20_kind_roundtrip() {
	from, to := vpInt("from"), vpInt("to")
	switch vpChoice("region", 5) {
	case 1:
		vpAssume(from > 1<<53 && from%2 == 1 && to > from && to%2 == 1)
	case 2:
		vpAssume(from > 1<<53 && from%2 == 1 && to == from)
	case 3:
		vpAssume(from < 0 && to >= 0)
	case 4:
		vpAssume(from >= 0 && from < 65536 && to == from)
	}
	if vpSymbolic() {
		vpReach("end")
		return
	}
	k := Nip11Kind{From: from, To: to}
	b, err := k.MarshalJSON()
	vpAssert(err == nil && json.Valid(b), "C20.kind-encodes")
	var back Nip11Kind
	vpAssert(back.UnmarshalJSON(b) == nil, "C20.kind-decodes")
	vpAssert(back.From == from && back.To == to, "C20.kind-round-trip")
	vpReach("end")
}

func vpH_C20_kind() {
	if !vpSymbolic() {
		vpReach("end")
		return
	}
	from, to := vpInt("from"), vpInt("to")
	var encoded any
	decodes := 0
	nums := map[json.Number]int64{}
	mkNum := func(v int) json.Number {
		n := json.Number(fmt.Sprintf("n%d", len(nums)))
		nums[n] = int64(v)
		return n
	}
	vpStub("encoding/json.Marshal", func(v any) ([]byte, error) {
		encoded = v
		return []byte("K"), nil
	})
	vpStub("encoding/json.NewDecoder", func(r io.Reader) *json.Decoder { return new(json.Decoder) })
	vpStub("(*encoding/json.Decoder).UseNumber", func(d *json.Decoder) {})
	vpStub("(*encoding/json.Decoder).Decode", func(d *json.Decoder, v any) error {
		decodes++
		out, isAny := v.(*any)
		if !isAny {
			vpUnsupported("the kind decoder does not decode into a generic value: outside the JSON environment of this harness")
		}
		switch x := encoded.(type) {
		case int:
			*out = mkNum(x)
		case []int:
			l := make([]any, len(x))
			for i, e := range x {
				l[i] = mkNum(e)
			}
			*out = l
		default:
			return fmt.Errorf("unexpected encoded value %T", encoded)
		}
		return nil
	})
	vpStub("(encoding/json.Number).Int64", func(n json.Number) (int64, error) { return nums[n], nil })

	k := Nip11Kind{From: from, To: to}
	b, err := k.MarshalJSON()
	if encoded == nil || string(b) != "K" {
		// the encoder is not built on json.Marshal of an int / []int (hand-written text?): the
		// engine-side environment cannot judge it; the native run of the witnesses still does
		vpUnsupported("Nip11Kind.MarshalJSON does not go through json.Marshal: outside the JSON environment of this harness")
	}
	vpAssert(err == nil, "C20.kind-encodes")
	switch x := encoded.(type) {
	case int:
		vpAssert(from == to && x == from, "C20.kind-single-number-only-when-equal")
	case []int:
		vpAssert(len(x) == 2 && x[0] == from && x[1] == to, "C20.kind-pair-carries-both")
	default:
		// neither an int nor a []int was handed to json.Marshal (an array, another integer type?):
		// the environment of this harness does not model it; the native round trip judges
		vpUnsupported("Nip11Kind.MarshalJSON hands json.Marshal a value that is neither int nor []int: outside the JSON environment of this harness")
	}
	var back Nip11Kind
	uerr := back.UnmarshalJSON(b)
	if decodes == 0 {
		vpUnsupported("Nip11Kind.UnmarshalJSON does not use json.Decoder.Decode: outside the JSON environment of this harness")
	}
	vpAssert(uerr == nil, "C20.kind-decodes")
	vpAssert(back.From == from && back.To == to, "C20.kind-round-trip")
	vpReach("end")
}
