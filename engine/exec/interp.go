package exec

import (
	"fmt"
	"go/token"
	"go/types"
	"os"
	"runtime/debug"
	"strings"

	"golang.org/x/tools/go/ssa"
	"symgo/smt"
)

// ---------------------------------------------------------------------------
// Path termination

type endKind int

const (
	endOK endKind = iota
	endAssume
	endViolation
	endUnsupported
	endBudget
	endBlocked
	endInconclusive
	endEngineBug
	endAbort // internal: goroutine unwinding
)

func (k endKind) String() string {
	return [...]string{"ok", "assume-killed", "violation", "unsupported", "budget", "blocked", "inconclusive", "engine-bug", "abort"}[k]
}

type pathEnd struct {
	kind endKind
	msg  string
}

// targetPanic is a Go-level panic of the interpreted program.
type targetPanic struct {
	v   Value
	msg string
}

func (e *Exec) unsupported(format string, a ...interface{}) {
	if e.spec > 0 {
		panic(specAbort{})
	}
	msg := fmt.Sprintf(format, a...)
	if e.lenient > 0 {
		panic(lenientFail{msg})
	}
	panic(pathEnd{endUnsupported, msg + e.where()})
}

type lenientFail struct{ msg string }

func (e *Exec) where() string {
	if e.cur != nil && e.cur.fr != nil && e.cur.fr.curInstr != nil {
		fr := e.cur.fr
		return fmt.Sprintf(" [at %s in %s]", e.p.Prog.Fset.Position(fr.curInstr.Pos()), fr.fn)
	}
	return ""
}

// runtimePanic raises a Go run-time panic in the interpreted program.
func (e *Exec) runtimePanic(msg string) {
	if e.spec > 0 {
		panic(specAbort{})
	}
	panic(targetPanic{v: Iface{T: types.Typ[types.String], V: e.mkStr("runtime error: " + msg)}, msg: "runtime error: " + msg})
}

// ---------------------------------------------------------------------------
// Frames

type deferred struct {
	fn    Value
	args  []Value
	instr *ssa.Defer
	tail  *deferred
}

type frame struct {
	e                *Exec
	caller           *frame
	fn               *ssa.Function
	block, prevBlock *ssa.BasicBlock
	env              map[ssa.Value]Value
	locals           []Value
	defers           *deferred
	result           Value
	panicking        bool
	panicv           interface{}
	curInstr         ssa.Instruction
	phitemps         []Value
	phisDone         bool
}

func (fr *frame) get(key ssa.Value) Value {
	switch key := key.(type) {
	case nil:
		return nil
	case *ssa.Function, *ssa.Builtin:
		return key
	case *ssa.Const:
		return fr.e.constValue(key)
	case *ssa.Global:
		return fr.e.globalAddr(key)
	}
	if r, ok := fr.env[key]; ok {
		return r
	}
	panic(fmt.Sprintf("get: no value for %T: %v in %s", key, key.Name(), fr.fn))
}

func (e *Exec) constValue(c *ssa.Const) Value {
	if v, ok := e.constCache[c]; ok {
		return v
	}
	v := e.constValue1(c)
	e.constCache[c] = v
	return v
}

func (e *Exec) constValue1(c *ssa.Const) Value {
	if c.Value == nil {
		return e.zero(c.Type())
	}
	if t, ok := c.Type().Underlying().(*types.Basic); ok {
		switch {
		case t.Info()&types.IsBoolean != 0:
			return e.c.Bool(c.Value.String() == "true")
		case t.Info()&types.IsInteger != 0:
			w, signed, _ := intWidth(t)
			if signed {
				return e.c.BV(uint64(c.Int64()), w)
			}
			return e.c.BV(c.Uint64(), w)
		case t.Info()&types.IsFloat != 0:
			return c.Float64()
		case t.Info()&types.IsString != 0:
			if c.Value.Kind().String() == "String" {
				return e.mkStr(constantStringVal(c))
			}
			return e.mkStr(string(rune(c.Int64())))
		}
	}
	panic(fmt.Sprintf("constValue: %s", c))
}

// ---------------------------------------------------------------------------
// Defer / panic / recover

func (fr *frame) runDefer(d *deferred) {
	var ok bool
	defer func() {
		if !ok {
			r := recover()
			if pe, isEnd := r.(pathEnd); isEnd {
				panic(pe)
			}
			if _, isL := r.(lenientFail); isL {
				panic(r)
			}
			if _, isT := r.(targetPanic); !isT {
				panic(r) // engine bug: propagate
			}
			fr.panicking = true
			fr.panicv = r
		}
	}()
	fr.e.call(fr, d.instr.Pos(), d.fn, d.args)
	ok = true
}

func (fr *frame) runDefers() {
	for d := fr.defers; d != nil; d = d.tail {
		fr.runDefer(d)
	}
	fr.defers = nil
	if fr.panicking {
		panic(fr.panicv)
	}
}

func (e *Exec) doRecover(caller *frame) Value {
	if caller != nil && !caller.panicking && caller.caller != nil && caller.caller.panicking {
		caller.caller.panicking = false
		p := caller.caller.panicv
		caller.caller.panicv = nil
		if tp, ok := p.(targetPanic); ok {
			return tp.v
		}
		panic(p)
	}
	return Iface{}
}

// ---------------------------------------------------------------------------
// Instruction dispatch

type continuation int

const (
	kNext continuation = iota
	kReturn
	kJump
)

func (e *Exec) visitInstr(fr *frame, instr ssa.Instruction) continuation {
	switch instr := instr.(type) {
	case *ssa.DebugRef:
	case *ssa.UnOp:
		fr.env[instr] = e.unop(fr, instr, fr.get(instr.X))
	case *ssa.BinOp:
		fr.env[instr] = e.binop(instr.Op, instr.X.Type(), fr.get(instr.X), fr.get(instr.Y))
	case *ssa.Call:
		fn, args := e.prepareCall(fr, &instr.Call)
		fr.env[instr] = e.call(fr, instr.Pos(), fn, args)
	case *ssa.ChangeInterface:
		fr.env[instr] = fr.get(instr.X)
	case *ssa.ChangeType:
		fr.env[instr] = fr.get(instr.X)
	case *ssa.Convert:
		fr.env[instr] = e.conv(instr.Type(), instr.X.Type(), fr.get(instr.X))
	case *ssa.SliceToArrayPointer:
		x := fr.get(instr.X).(Slice)
		n := int(deref(instr.Type()).Underlying().(*types.Array).Len())
		if len(x.A) < n {
			e.runtimePanic("cannot convert slice to array pointer: length too short")
		}
		if x.A == nil {
			fr.env[instr] = (*Value)(nil)
		} else {
			// Aliasing array view is not representable cell-wise: copy (read-mostly use).
			var cell Value = Array(x.A[:n:n])
			fr.env[instr] = &cell
		}
	case *ssa.MakeInterface:
		fr.env[instr] = Iface{T: instr.X.Type(), V: fr.get(instr.X)}
	case *ssa.Extract:
		fr.env[instr] = fr.get(instr.Tuple).(Tuple)[instr.Index]
	case *ssa.Slice:
		fr.env[instr] = e.sliceOp(instr, fr.get(instr.X), fr.get(instr.Low), fr.get(instr.High), fr.get(instr.Max))
	case *ssa.Return:
		switch len(instr.Results) {
		case 0:
		case 1:
			fr.result = fr.get(instr.Results[0])
		default:
			var res []Value
			for _, r := range instr.Results {
				res = append(res, fr.get(r))
			}
			fr.result = Tuple(res)
		}
		fr.block = nil
		return kReturn
	case *ssa.RunDefers:
		fr.runDefers()
	case *ssa.Panic:
		v := fr.get(instr.X)
		panic(targetPanic{v: v, msg: e.panicText(v)})
	case *ssa.Send:
		e.chanSend(fr.get(instr.Chan).(*Chan), fr.get(instr.X))
	case *ssa.Store:
		if sp, ok := fr.get(instr.Addr).(*symPtr); ok {
			e.symStore(sp, fr.get(instr.Val))
			break
		}
		e.store(fr.get(instr.Addr).(*Value), fr.get(instr.Val))
	case *ssa.If:
		cond := fr.get(instr.Cond).(*smt.Term)
		if !cond.IsConst() {
			if _, kn := e.known[cond]; !kn && e.tryMerge(fr, instr, cond) {
				return kJump
			}
		}
		succ := 1
		if e.decide(cond) {
			succ = 0
		}
		fr.prevBlock, fr.block = fr.block, fr.block.Succs[succ]
		return kJump
	case *ssa.Jump:
		fr.prevBlock, fr.block = fr.block, fr.block.Succs[0]
		return kJump
	case *ssa.Defer:
		fn, args := e.prepareCall(fr, &instr.Call)
		fr.defers = &deferred{fn: fn, args: args, instr: instr, tail: fr.defers}
	case *ssa.Go:
		fn, args := e.prepareCall(fr, &instr.Call)
		e.spawn(instr.Pos(), fn, args)
	case *ssa.MakeChan:
		n := e.concreteInt(fr.get(instr.Size), "channel size")
		fr.env[instr] = e.newChan(int(n), instr.Type())
	case *ssa.Alloc:
		var addr *Value
		if instr.Heap {
			addr = new(Value)
			fr.env[instr] = addr
		} else {
			addr = fr.env[instr].(*Value)
		}
		*addr = e.zero(deref(instr.Type()))
	case *ssa.MakeSlice:
		ln := e.concreteInt(fr.get(instr.Len), "make len")
		cp := e.concreteInt(fr.get(instr.Cap), "make cap")
		if ln < 0 || cp < ln || cp > 1<<20 {
			e.runtimePanic("makeslice: len out of range")
		}
		sl := make([]Value, cp)
		tElt := instr.Type().Underlying().(*types.Slice).Elem()
		for i := range sl {
			sl[i] = e.zero(tElt)
		}
		fr.env[instr] = Slice{A: sl[:ln]}
	case *ssa.MakeMap:
		mt := instr.Type().Underlying().(*types.Map)
		fr.env[instr] = &Map{KeyT: mt.Key(), ElemT: mt.Elem()}
	case *ssa.Range:
		fr.env[instr] = e.rangeIter(fr.get(instr.X), instr.X.Type())
	case *ssa.Next:
		fr.env[instr] = fr.get(instr.Iter).(iter).next(e)
	case *ssa.FieldAddr:
		p := fr.get(instr.X).(*Value)
		if p == nil {
			e.runtimePanic("invalid memory address or nil pointer dereference")
		}
		fr.env[instr] = &(*p).(Struct)[instr.Field]
	case *ssa.Field:
		fr.env[instr] = fr.get(instr.X).(Struct)[instr.Field]
	case *ssa.IndexAddr:
		x := fr.get(instr.X)
		idx := fr.get(instr.Index).(*smt.Term)
		switch x := x.(type) {
		case Slice:
			if sp := e.symElemPtr(instr, x.A, idx); sp != nil {
				fr.env[instr] = sp
				break
			}
			i := e.indexIn(idx, instr.Index.Type(), len(x.A))
			fr.env[instr] = &x.A[i]
		case *Value:
			if x == nil {
				e.runtimePanic("invalid memory address or nil pointer dereference")
			}
			a := (*x).(Array)
			if sp := e.symElemPtr(instr, []Value(a), idx); sp != nil {
				fr.env[instr] = sp
				break
			}
			i := e.indexIn(idx, instr.Index.Type(), len(a))
			fr.env[instr] = &a[i]
		default:
			panic(fmt.Sprintf("unexpected x type in IndexAddr: %T", x))
		}
	case *ssa.Index:
		x := fr.get(instr.X)
		idx := fr.get(instr.Index).(*smt.Term)
		switch x := x.(type) {
		case Array:
			fr.env[instr] = e.indexRead([]Value(x), idx, instr.Index.Type(), instr.Type())
		case Str:
			if x.OpaqueID != 0 {
				e.unsupported("index of opaque string")
			}
			vals := make([]Value, len(x.B))
			for i, b := range x.B {
				vals[i] = b
			}
			fr.env[instr] = e.indexRead(vals, idx, instr.Index.Type(), instr.Type())
		default:
			panic(fmt.Sprintf("unexpected x type in Index: %T", x))
		}
	case *ssa.Lookup:
		fr.env[instr] = e.lookup(instr, fr.get(instr.X), fr.get(instr.Index))
	case *ssa.MapUpdate:
		m := fr.get(instr.Map).(*Map)
		if m == nil {
			e.runtimePanic("assignment to entry in nil map")
		}
		e.mapInsert(m, fr.get(instr.Key), fr.get(instr.Value))
	case *ssa.TypeAssert:
		fr.env[instr] = e.typeAssert(instr, fr.get(instr.X).(Iface))
	case *ssa.MakeClosure:
		var bindings []Value
		for _, b := range instr.Bindings {
			bindings = append(bindings, fr.get(b))
		}
		fr.env[instr] = &Closure{instr.Fn.(*ssa.Function), bindings}
	case *ssa.Phi:
		panic("unreachable: phi")
	case *ssa.Select:
		fr.env[instr] = e.selectOp(fr, instr)
	default:
		e.unsupported("instruction %T", instr)
	}
	return kNext
}

func (e *Exec) panicText(v Value) string {
	switch v := v.(type) {
	case Iface:
		if s, ok := v.V.(Str); ok {
			if c, ok := s.Concrete(); ok {
				return c
			}
			return "<symbolic string>"
		}
		if v.T != nil {
			return fmt.Sprintf("panic value of type %v", v.T)
		}
		return "nil"
	}
	return show(v)
}

func (e *Exec) prepareCall(fr *frame, call *ssa.CallCommon) (fn Value, args []Value) {
	v := fr.get(call.Value)
	if call.Method == nil {
		fn = v
	} else {
		recv := v.(Iface)
		if recv.T == nil {
			e.runtimePanic("invalid memory address or nil pointer dereference (method call on nil interface)")
		}
		if op, ok := recv.V.(*Opaque); ok {
			// object of an opaque package: record the call / dispatch to its handler
			fn = &opaqueMethod{recv: op, name: call.Method.Name(), sig: call.Method.Type().(*types.Signature)}
		} else {
			f := e.p.Prog.LookupMethod(recv.T, call.Method.Pkg(), call.Method.Name())
			if f == nil {
				panic(fmt.Sprintf("method set for dynamic type %v does not contain %s", recv.T, call.Method))
			}
			fn = f
			args = append(args, recv.V)
		}
	}
	for _, arg := range call.Args {
		args = append(args, fr.get(arg))
	}
	return
}

type opaqueMethod struct {
	recv *Opaque
	name string
	sig  *types.Signature
}

func (e *Exec) call(caller *frame, callpos token.Pos, fn Value, args []Value) Value {
	switch fn := fn.(type) {
	case *ssa.Function:
		if fn == nil {
			e.runtimePanic("call of nil function")
		}
		return e.callSSA(caller, callpos, fn, args, nil)
	case *Closure:
		return e.callSSA(caller, callpos, fn.Fn, args, fn.Env)
	case *ssa.Builtin:
		return e.callBuiltin(caller, callpos, fn, args)
	case *opaqueMethod:
		return e.callOpaqueMethod(caller, fn, args)
	case *Opaque:
		if fn.Kind == "func" {
			return fn.Data.(func(*Exec, []Value) Value)(e, args)
		}
	}
	panic(fmt.Sprintf("cannot call %T", fn))
}

// callValue calls a function value from an intrinsic.
func (e *Exec) callValue(fn Value, args ...Value) Value {
	var fr *frame
	if e.cur != nil {
		fr = e.cur.fr
	}
	return e.call(fr, token.NoPos, fn, args)
}

func (e *Exec) callSSA(caller *frame, callpos token.Pos, fn *ssa.Function, args []Value, env []Value) Value {
	e.steps++
	if e.lenient > 0 && fn.Synthetic == "package initializer" && fn != e.curInit {
		return nil // imported packages are initialised lazily
	}
	if fn.Parent() == nil {
		name := fn.String()
		if fn.Pkg != nil && fn.Pkg == e.p.Pkg && strings.HasPrefix(fn.Name(), "vp") {
			if vp, ok := vpIntrinsics[fn.Name()]; ok {
				return vp(e, caller, fn, args)
			}
		}
		if st, ok := e.stubs[name]; ok {
			return e.call(caller, callpos, st, args)
		}
		if in, ok := intrinsics[name]; ok && e.forceBody == 0 {
			e.noteFn(name + " (intrinsic)")
			return in(e, caller, fn, args)
		}
		if e.forceBody > 0 {
			e.forceBody = 0 // only the outermost call is forced to its body
			defer func() { e.forceBody = 1 }()
		}
		if o := fn.Origin(); o != nil {
			if in, ok := intrinsics[o.String()]; ok {
				e.noteFn(o.String() + " (intrinsic)")
				return in(e, caller, fn, args)
			}
		}
		if fn.Pkg != nil && e.opaquePkgs[fn.Pkg.Pkg.Path()] && !e.realFns[name] {
			return e.opaqueCall(fn, args)
		}
		if fn.Blocks == nil {
			e.unsupported("no code for function %s", name)
		}
	}
	if fn.TypeParams().Len() > 0 && len(fn.TypeArgs()) == 0 {
		e.unsupported("uninstantiated generic %s", fn)
	}
	e.noteFn(fn.String())
	if e.depth > 400 {
		panic(pathEnd{endBudget, "call depth exceeded in " + fn.String()})
	}
	e.depth++
	defer func() { e.depth-- }()

	fr := &frame{e: e, caller: caller, fn: fn}
	fr.env = make(map[ssa.Value]Value, 16)
	fr.block = fn.Blocks[0]
	fr.locals = make([]Value, len(fn.Locals))
	for i, l := range fn.Locals {
		fr.locals[i] = e.zero(deref(l.Type()))
		fr.env[l] = &fr.locals[i]
	}
	for i, p := range fn.Params {
		fr.env[p] = args[i]
	}
	for i, fv := range fn.FreeVars {
		fr.env[fv] = env[i]
	}
	saved := e.cur.fr
	e.cur.fr = fr
	defer func() { e.cur.fr = saved }()
	for fr.block != nil {
		e.runFrame(fr)
	}
	return fr.result
}

func (e *Exec) runFrame(fr *frame) {
	defer func() {
		if fr.block == nil {
			return // normal return
		}
		r := recover()
		switch r.(type) {
		case targetPanic:
		case pathEnd, lenientFail, specAbort:
			panic(r) // not the program's business
		default:
			// a Go panic inside the interpreter: report where the program was
			pos := ""
			if fr.curInstr != nil {
				pos = fmt.Sprintf(" [at %s in %s: %s]", e.p.Prog.Fset.Position(fr.curInstr.Pos()), fr.fn, fr.curInstr)
			}
			panic(pathEnd{endEngineBug, fmt.Sprintf("%v%s\n%s", r, pos, clip(string(debug.Stack()), 2500))})
		}
		fr.panicking = true
		fr.panicv = r
		e.cur.fr = fr
		fr.runDefers()
		fr.block = fr.fn.Recover
		if fr.block == nil {
			// recovered, no named results: return zero values
			fr.result = e.zeroResults(fr.fn)
		}
	}()

	for {
		nonPhis := e.executePhis(fr)
		for _, instr := range nonPhis {
			e.steps++
			if e.steps > e.maxSteps {
				panic(pathEnd{endBudget, fmt.Sprintf("instruction budget %d exhausted", e.maxSteps)})
			}
			fr.curInstr = instr
			if e.trace_ {
				e.traceInstr(fr, instr)
			}
			var k continuation
			if e.lenient > 0 {
				k = e.visitLenient(fr, instr)
			} else {
				k = e.visitInstr(fr, instr)
			}
			if k == kReturn {
				return
			}
			if k == kJump {
				break
			}
		}
	}
}

// visitLenient executes one instruction of a package initialiser: a failing
// value instruction yields Poison instead of ending the path.
func (e *Exec) visitLenient(fr *frame, instr ssa.Instruction) (k continuation) {
	defer func() {
		if r := recover(); r != nil {
			if pe, ok := r.(pathEnd); ok && pe.kind != endUnsupported {
				panic(r)
			}
			v, isVal := instr.(ssa.Value)
			if !isVal {
				if _, isStore := instr.(*ssa.Store); isStore {
					k = kNext
					return
				}
				if _, isMU := instr.(*ssa.MapUpdate); isMU {
					k = kNext
					return
				}
				if os.Getenv("SYMGO_DEBUG_INIT") != "" {
					fmt.Fprintf(os.Stderr, "lenient abort: %s in %s: %v\n", instr, fr.fn, clip(fmt.Sprint(r), 300))
				}
				panic(lenientFail{fmt.Sprint(r)})
			}
			fr.env[v] = Poison{Why: clip(fmt.Sprint(r), 200)}
			if os.Getenv("SYMGO_DEBUG_INIT") != "" {
				fmt.Fprintf(os.Stderr, "lenient: %s in %s: %v\n", instr, fr.fn, clip(fmt.Sprint(r), 300))
			}
			k = kNext
		}
	}()
	return e.visitInstr(fr, instr)
}

func (e *Exec) zeroResults(fn *ssa.Function) Value {
	res := fn.Signature.Results()
	switch res.Len() {
	case 0:
		return nil
	case 1:
		return e.zero(res.At(0).Type())
	}
	t := make(Tuple, res.Len())
	for i := range t {
		t[i] = e.zero(res.At(i).Type())
	}
	return t
}

func (e *Exec) executePhis(fr *frame) []ssa.Instruction {
	firstNonPhi := -1
	for i, instr := range fr.block.Instrs {
		if _, ok := instr.(*ssa.Phi); !ok {
			firstNonPhi = i
			break
		}
	}
	nonPhis := fr.block.Instrs[firstNonPhi:]
	if fr.phisDone {
		fr.phisDone = false
		return nonPhis
	}
	if firstNonPhi > 0 {
		phis := fr.block.Instrs[:firstNonPhi]
		predIndex := -1
		for i, p := range fr.block.Preds {
			if p == fr.prevBlock {
				predIndex = i
				break
			}
		}
		fr.phitemps = fr.phitemps[:0]
		for _, phi := range phis {
			fr.phitemps = append(fr.phitemps, fr.get(phi.(*ssa.Phi).Edges[predIndex]))
		}
		for i, phi := range phis {
			fr.env[phi.(*ssa.Phi)] = fr.phitemps[i]
		}
	}
	return nonPhis
}

func (e *Exec) traceInstr(fr *frame, instr ssa.Instruction) {
	if v, ok := instr.(ssa.Value); ok {
		fmt.Fprintf(e.traceW, "  %s: %s = %s\n", fr.fn.Name(), v.Name(), instr)
	} else {
		fmt.Fprintf(e.traceW, "  %s: %s\n", fr.fn.Name(), instr)
	}
}

// ---------------------------------------------------------------------------
// Memory

func (e *Exec) load(p *Value) Value {
	if p == nil {
		e.runtimePanic("invalid memory address or nil pointer dereference")
	}
	e.monitorAccess(p, false)
	v := *p
	if pz, ok := v.(Poison); ok {
		e.unsupported("use of uninitialised/poisoned value: %s", pz.Why)
	}
	return copyVal(v)
}

func (e *Exec) store(p *Value, v Value) {
	if p == nil {
		e.runtimePanic("invalid memory address or nil pointer dereference")
	}
	e.monitorAccess(p, true)
	*p = copyVal(v)
}

// ---------------------------------------------------------------------------
// Globals and lazy package initialisation

func (e *Exec) globalAddr(g *ssa.Global) *Value {
	if r, ok := e.globals[g]; ok {
		return r
	}
	pkg := g.Pkg
	// allocate all globals of the package, then run its initialiser leniently
	for _, m := range pkg.Members {
		if gv, ok := m.(*ssa.Global); ok {
			cell := e.zero(deref(gv.Type()))
			e.globals[gv] = &cell
		}
	}
	if !e.pkgInit[pkg] {
		e.pkgInit[pkg] = true
		e.runInit(pkg)
	}
	return e.globals[g]
}

// runInit executes pkg's init function, skipping the initialisers of imported
// packages (they run lazily when one of their globals is first touched). A
// call that cannot be executed poisons its result instead of ending the path.
func (e *Exec) runInit(pkg *ssa.Package) {
	initFn := pkg.Func("init")
	if initFn == nil || initFn.Blocks == nil {
		return
	}
	if g, ok := pkg.Members["init$guard"].(*ssa.Global); ok {
		*e.globals[g] = e.c.False
	}
	if os.Getenv("SYMGO_DEBUG_INIT") != "" {
		fmt.Fprintf(os.Stderr, "init %s\n", pkg.Pkg.Path())
	}
	e.lenient++
	savedSteps := e.steps
	savedInit := e.curInit
	e.curInit = initFn
	defer func() {
		e.curInit = savedInit
		e.lenient--
		e.steps = savedSteps // initialisation does not count against the path budget
		if r := recover(); r != nil {
			if _, ok := r.(lenientFail); ok {
				return // rest of this initialiser is skipped; affected globals stay zero/poison
			}
			if tp, ok := r.(targetPanic); ok {
				_ = tp
				return
			}
			panic(r)
		}
	}()
	e.callSSA(e.curFrame(), token.NoPos, initFn, nil, nil)
}

func (e *Exec) curFrame() *frame {
	if e.cur != nil {
		return e.cur.fr
	}
	return nil
}

func (e *Exec) noteFn(name string) {
	if e.fnSeen != nil {
		e.fnSeen[name] = true
	}
}

// symPtr is &a[i] for a symbolic index i into a table of scalars: a load is one
// ite term over the cells, a store a conditional update of every cell. It only
// exists when every use of the IndexAddr is a load or a store through it.
type symPtr struct {
	cells []Value
	idx   *smt.Term // 64-bit, known to be in range on this path
}

func (e *Exec) symElemPtr(instr *ssa.IndexAddr, cells []Value, idx *smt.Term) *symPtr {
	if idx.IsConst() || len(cells) == 0 || len(cells) > 1024 {
		return nil
	}
	w := -1
	for _, c := range cells {
		t, ok := c.(*smt.Term)
		if !ok || (w >= 0 && t.W != w) {
			return nil
		}
		w = t.W
	}
	refs := instr.Referrers()
	if refs == nil {
		return nil
	}
	for _, r := range *refs {
		switch r := r.(type) {
		case *ssa.UnOp:
			if r.Op != token.MUL {
				return nil
			}
		case *ssa.Store:
			if r.Addr != ssa.Value(instr) || r.Val == ssa.Value(instr) {
				return nil
			}
		case *ssa.DebugRef:
		default:
			return nil
		}
	}
	i64 := e.toWidth(idx, instr.Index.Type(), 64)
	if !e.decide(e.c.Cmp(smt.KUlt, i64, e.mkInt(int64(len(cells))))) {
		e.runtimePanic(fmt.Sprintf("index out of range [symbolic] with length %d", len(cells)))
	}
	return &symPtr{cells: cells, idx: i64}
}

func (e *Exec) symLoad(sp *symPtr) Value {
	var build func(lo, hi int) *smt.Term
	build = func(lo, hi int) *smt.Term {
		if hi-lo == 1 {
			return sp.cells[lo].(*smt.Term)
		}
		mid := (lo + hi) / 2
		return e.c.Ite(e.c.Cmp(smt.KUlt, sp.idx, e.mkInt(int64(mid))), build(lo, mid), build(mid, hi))
	}
	return build(0, len(sp.cells))
}

func (e *Exec) symStore(sp *symPtr, v Value) {
	t := v.(*smt.Term)
	for i := range sp.cells {
		sp.cells[i] = e.c.Ite(e.c.Eq(sp.idx, e.mkInt(int64(i))), t, sp.cells[i].(*smt.Term))
	}
}
