#!/bin/bash
# tools_seed_verify.sh <name> <patch> <demo_test.go>
# Confirms a seeded change in a fresh scratch worktree: applies, builds, existing suite green,
# demo fails with the change and passes without it. Prints one summary line. Removes the worktree.
name="$1"; patch="$2"; demo="$3"
wt=/tmp/sv/$name
mkdir -p /tmp/sv; rm -rf "$wt"; git -C /repo worktree prune
git -C /repo worktree add --detach "$wt" HEAD -q || { echo "$name: cannot create worktree"; exit 2; }
cleanup() { git -C /repo worktree remove --force "$wt" 2>/dev/null; }
trap cleanup EXIT
cd "$wt"
export GOFLAGS=-mod=mod GOPROXY=off
pkgname=$(grep -m1 '^package ' "$demo" | awk '{print $2}' | sed 's/_test$//')
case "$pkgname" in
  mocrelay) pkgdir=. ;;
  sqlite) pkgdir=handler/sqlite ;;
  prometheus) pkgdir=middleware/prometheus ;;
  *) pkgdir=. ;;
esac
demoname=$(basename "$demo")
# without the change: demo must pass
cp "$demo" "$pkgdir/$demoname"
if go test -vet=off -count=1 -run 'Demo|demo|ZZ' ./$pkgdir > /tmp/sv/$name.base.log 2>&1; then base=pass; else base=FAIL; fi
rm -f "$pkgdir/$demoname"
git apply "$patch" || { echo "$name: PATCH DOES NOT APPLY"; exit 2; }
if go build ./... > /tmp/sv/$name.build.log 2>&1; then build=ok; else build=FAIL; fi
if go test -vet=off -count=1 ./... > /tmp/sv/$name.suite.log 2>&1; then suite=pass; else suite=FAIL; fi
cp "$demo" "$pkgdir/$demoname"
if go test -vet=off -count=1 -run 'Demo|demo|ZZ' ./$pkgdir > /tmp/sv/$name.demo.log 2>&1; then demoR=pass; else demoR=FAIL; fi
echo "$name: build=$build suite=$suite demo_with_change=$demoR demo_without=$base pkg=$pkgdir"
