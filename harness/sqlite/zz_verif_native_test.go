package sqlite

// Native confirmations for C06/C14 counterexamples against the REAL store: an
// in-memory SQLite database through database/sql and mattn/go-sqlite3.

import (
	"context"
	"database/sql"
	"strings"

	"github.com/high-moctane/mocrelay"
	_ "github.com/mattn/go-sqlite3"
)

func init() { vpNative = vpNativeScenario }

func vpHex(c string, n int) string { return strings.Repeat(c, n) }

func vpOpenMem() *sql.DB {
	db, err := sql.Open("sqlite3", ":memory:")
	if err != nil {
		panic(err)
	}
	db.SetMaxOpenConns(1)
	if err := Migrate(context.Background(), db); err != nil {
		panic(err)
	}
	return db
}

func vpEv(id, pk string, kind, at int64, tags ...mocrelay.Tag) *mocrelay.Event {
	if tags == nil {
		tags = []mocrelay.Tag{}
	}
	return &mocrelay.Event{ID: vpHex(id, 64), Pubkey: vpHex(pk, 64), Kind: kind, CreatedAt: at, Tags: tags, Content: "c", Sig: vpHex("f", 128)}
}

// vpNativeScenario returns true when the real store shows the defect.
func vpNativeScenario(scenario string, in map[string]string) bool {
	ctx := context.Background()
	db := vpOpenMem()
	defer db.Close()
	const seed = 7
	must := func(err error) {
		if err != nil {
			panic(err)
		}
	}
	switch scenario {
	case "tombstone-extra-element":
		t := vpEv("1", "a", 1, 10)
		k := vpEv("2", "a", 5, 20, mocrelay.Tag{"e", t.ID, "wss://relay.example"})
		must(insertEvents(ctx, db, seed, []*mocrelay.Event{t}))
		must(insertEvents(ctx, db, seed, []*mocrelay.Event{k}))
		got, err := queryEvent(ctx, db, seed, []*mocrelay.ReqFilter{{}}, NoLimit)
		must(err)
		for _, e := range got {
			if e.ID == t.ID {
				return true // the referenced event is still served
			}
		}
		return false
	case "limit-zero":
		must(insertEvents(ctx, db, seed, []*mocrelay.Event{vpEv("1", "a", 1, 10), vpEv("2", "a", 1, 20)}))
		zero := int64(0)
		got, err := queryEvent(ctx, db, seed, []*mocrelay.ReqFilter{{Limit: &zero}}, NoLimit)
		must(err)
		return len(got) != 0
	case "empty-filter-list":
		must(insertEvents(ctx, db, seed, []*mocrelay.Event{vpEv("1", "a", 1, 10)}))
		got, err := queryEvent(ctx, db, seed, []*mocrelay.ReqFilter{}, NoLimit)
		if err != nil {
			return false
		}
		return len(got) != 0
	}
	panic("unknown native scenario " + scenario)
}
