package prometheus

// Native replay of solver counterexamples and of sampled path models: each
// case runs the same harness function the engine executed symbolically, with
// the vp* primitives reading the recorded inputs.

import (
	"encoding/json"
	"fmt"
	"os"
	"sort"
	"testing"
)

type vpCase struct {
	Label   string            `json:"label"`
	Harness string            `json:"harness"`
	Tier    int               `json:"tier"`
	Inputs  map[string]uint64 `json:"inputs"`
}

type vpResult struct {
	End   string   `json:"end"` // ok | assert:<label> | assume | panic:<msg>
	Reach []string `json:"reach"`
	Obs   []string `json:"obs"`
}

func vpRunCase(c vpCase) (res vpResult) {
	vpIn = &vpReplayFile{Label: c.Label, Harness: c.Harness, Tier: c.Tier, Inputs: c.Inputs}
	if vpIn.Inputs == nil {
		vpIn.Inputs = map[string]uint64{}
	}
	vpReset()
	vpHashMemo = map[string]uint64{}
	h, ok := vpHarnesses[c.Harness]
	if !ok {
		return vpResult{End: "no-such-harness"}
	}
	defer func() {
		if r := recover(); r != nil {
			switch r := r.(type) {
			case vpAssertFailed:
				res.End = "assert:" + r.Label
			case vpAssumeFailed:
				res.End = "assume"
			default:
				res.End = fmt.Sprintf("panic:%v", r)
			}
		}
		for k := range vpReached {
			res.Reach = append(res.Reach, k)
		}
		sort.Strings(res.Reach)
		res.Obs = vpObs
	}()
	h()
	res.End = "ok"
	return
}

func TestVPReplay(t *testing.T) {
	in := os.Getenv("VP_BATCH")
	out := os.Getenv("VP_OUT")
	if in == "" {
		t.Skip("VP_BATCH not set")
	}
	b, err := os.ReadFile(in)
	if err != nil {
		t.Fatal(err)
	}
	var cases []vpCase
	if err := json.Unmarshal(b, &cases); err != nil {
		t.Fatal(err)
	}
	results := make([]vpResult, len(cases))
	for i, c := range cases {
		results[i] = vpRunCase(c)
	}
	ob, _ := json.Marshal(results)
	if err := os.WriteFile(out, ob, 0o644); err != nil {
		t.Fatal(err)
	}
}
