#!/bin/bash
# tools_seed_matrix.sh [seed...]   run every seeded change (or the named ones) against the quick
# checks of the properties listed in its meta.json check_outcome; writes seeded/last_matrix.log
# and regenerates seeded/README.md. /repo is restored after every seed.
cd /verif || exit 2
seeds="$@"
[ -z "$seeds" ] && seeds=$(ls -d seeded/C??-? | xargs -n1 basename)
log=seeded/last_matrix.log
[ $# -eq 0 ] && : > $log
for s in $seeds; do
  props=$(python3 -c "
import json
m=json.load(open('/verif/seeded/$s/meta.json'))
ps=[o.split(':')[0] for o in m.get('check_outcome',[])] or [m['property']]
extra={'C05-2':['C06'],'C14-2':['C14','C06'],'C05-6':['C15'],'C16-5':['C04']}
for e in extra.get('$s',[]):
    if e not in ps: ps.append(e)
print(' '.join(ps))")
  echo "#### $s" >> $log
  ./tools_seed_eval.sh /verif/seeded/$s/patch.diff $props >> $log 2>&1
done
python3 tools_seed_table.py $log
