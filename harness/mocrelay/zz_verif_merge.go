package mocrelay

import "strings"

func init() {
	vpHarnesses["vpH_C09_ok"] = vpH_C09_ok
	vpHarnesses["vpH_C09_count"] = vpH_C09_count
	vpHarnesses["vpH_C08_req"] = vpH_C08_req
}

// The merge handler's observable behaviour for these properties is the
// sequence of non-nil results of handleSendMsg in call order (one goroutine
// calls it and forwards each result before the next call) and every state
// change happens inside handleRecvMsg/handleSendMsg. Every interleaving of the
// children with each other and with the client is therefore a total order of
// such calls: that order is the (symbolic) schedule explored here.

func vpNewMergeSession(n int) *mergeHandlerSession {
	return newMergeHandlerSession(&MergeHandler{hs: make([]Handler, n)})
}

type vpRound struct {
	id      string
	replies []*ServerOKMsg
	counts  []*ServerCountMsg
	dup     bool // submitted while an earlier round of the same id was incomplete
}

// C09 EVENT/OK: every submitted EVENT gets exactly one OK, emitted when the
// last child's reply arrives, accepting iff all accepted, the rejection text
// beginning with the first rejecting child's reason. Children answer their own
// requests in FIFO order (each child is a sequential handler).
func vpH_C09_ok() {
	n := 2 + vpChoice("children", 2)
	ss := vpNewMergeSession(n)
	steps := vpSteps(5, 6)
	pending := make([][]string, n)
	var rounds []*vpRound
	submitted, emitted := 0, 0
	anyDup := false
	for k := 0; k < steps; k++ {
		op := vpChoice("op", 1+n)
		if op == 0 {
			id := vpSym1("id")
			dup := false
			for _, r := range rounds {
				if r.id == id {
					dup = true
				}
			}
			anyDup = anyDup || dup
			out := ss.handleRecvMsg(&ClientEventMsg{Event: &Event{ID: id, Tags: []Tag{}}})
			vpAssert(out != nil, "C09.event-broadcast")
			rounds = append(rounds, &vpRound{id: id, replies: make([]*ServerOKMsg, n), dup: dup})
			for i := range pending {
				pending[i] = append(pending[i], id)
			}
			submitted++
			continue
		}
		i := op - 1
		vpAssume(len(pending[i]) > 0)
		id := pending[i][0]
		pending[i] = pending[i][1:]
		prefix := []string{"", MachineReadablePrefixBlocked}[vpChoice("prefix", 2)]
		m := NewServerOKMsg(id, vpBool("accepted"), prefix, vpSym1("text"))
		out := ss.handleSendMsg(&mergeHandlerSessionSendMsg{Idx: i, Msg: m})
		sent := !isNilServerMsg(out)
		// ghost: the reply fills the oldest round of that id lacking child i's slot
		var rd *vpRound
		ri := -1
		for x, r := range rounds {
			if r.id == id && r.replies[i] == nil {
				rd, ri = r, x
				break
			}
		}
		if rd == nil {
			vpAssert(false, "C09.ghost-round-exists")
			return
		}
		rd.replies[i] = m
		complete := true
		for _, x := range rd.replies {
			if x == nil {
				complete = false
			}
		}
		if !complete {
			if early, isOK := out.(*ServerOKMsg); sent && isOK && !early.Accepted {
				for _, x := range rd.replies {
					if x != nil && !x.Accepted {
						// a rejection sent as soon as one child has rejected is not excluded by the
						// statement ("accepting iff every child accepted"); this harness' round
						// accounting does not follow such an implementation
						vpUnsupported("a rejecting OK was emitted before every child had replied: early rejection is outside this harness")
					}
				}
			}
			vpAssertKF(!sent, "C09.no-ok-before-all-children-replied", "C09.same-id-in-flight", anyDup)
			if sent {
				emitted++
			}
			continue
		}
		rounds = append(rounds[:ri:ri], rounds[ri+1:]...)
		vpAssertKF(sent, "C09.ok-when-last-child-replied", "C09.same-id-in-flight", anyDup)
		if !sent {
			continue
		}
		emitted++
		ok, isOK := out.(*ServerOKMsg)
		vpAssert(isOK, "C09.reply-is-ok")
		if !isOK {
			continue
		}
		vpAssert(ok.EventID == id, "C09.ok-carries-the-event-id")
		allAcc := true
		var firstRej *ServerOKMsg
		for _, x := range rd.replies {
			if !x.Accepted {
				allAcc = false
				if firstRej == nil {
					firstRej = x
				}
			}
		}
		vpAssertKF(ok.Accepted == allAcc, "C09.accepted-iff-all-accepted", "C09.same-id-in-flight", anyDup)
		if !allAcc && !ok.Accepted {
			vpAssertKF(strings.HasPrefix(ok.Message(), firstRej.Message()), "C09.text-begins-with-first-rejection", "C09.same-id-in-flight", anyDup)
		}
	}
	if len(rounds) == 0 {
		vpAssertKF(emitted == submitted, "C09.one-ok-per-event", "C09.same-id-in-flight", anyDup)
	}
	vpReach("end")
}

// C09 COUNT: one COUNT reply per COUNT request, carrying the maximum.
func vpH_C09_count() {
	n := 2 + vpChoice("children", 2)
	ss := vpNewMergeSession(n)
	steps := vpSteps(5, 6)
	pending := make([][]string, n)
	var rounds []*vpRound
	submitted, emitted := 0, 0
	anyDup := false
	for k := 0; k < steps; k++ {
		op := vpChoice("op", 2+n)
		if op == 1+n {
			// a CLOSE (of any subscription id) does not concern COUNT requests
			out := ss.handleRecvMsg(&ClientCloseMsg{SubscriptionID: vpSym1("closeid")})
			vpAssert(out != nil, "C09.close-broadcast")
			continue
		}
		if op == 0 {
			id := vpSym1("sub")
			dup := false
			for _, r := range rounds {
				if r.id == id {
					dup = true
				}
			}
			anyDup = anyDup || dup
			out := ss.handleRecvMsg(&ClientCountMsg{SubscriptionID: id, ReqFilters: []*ReqFilter{{}}})
			vpAssert(out != nil, "C09.count-broadcast")
			rounds = append(rounds, &vpRound{id: id, counts: make([]*ServerCountMsg, n), dup: dup})
			for i := range pending {
				pending[i] = append(pending[i], id)
			}
			submitted++
			continue
		}
		i := op - 1
		vpAssume(len(pending[i]) > 0)
		id := pending[i][0]
		pending[i] = pending[i][1:]
		m := NewServerCountMsg(id, vpUint64("count"), nil)
		out := ss.handleSendMsg(&mergeHandlerSessionSendMsg{Idx: i, Msg: m})
		sent := !isNilServerMsg(out)
		var rd *vpRound
		ri := -1
		for x, r := range rounds {
			if r.id == id && r.counts[i] == nil {
				rd, ri = r, x
				break
			}
		}
		if rd == nil {
			vpAssert(false, "C09.ghost-round-exists")
			return
		}
		rd.counts[i] = m
		complete := true
		for _, x := range rd.counts {
			if x == nil {
				complete = false
			}
		}
		if !complete {
			vpAssertKF(!sent, "C09.no-count-before-all-children-replied", "C09.same-id-in-flight", anyDup)
			if sent {
				emitted++
			}
			continue
		}
		rounds = append(rounds[:ri:ri], rounds[ri+1:]...)
		vpAssertKF(sent, "C09.count-when-last-child-replied", "C09.same-id-in-flight", anyDup)
		if !sent {
			continue
		}
		emitted++
		cm, isC := out.(*ServerCountMsg)
		vpAssert(isC, "C09.reply-is-count")
		if !isC {
			continue
		}
		vpAssert(cm.SubscriptionID == id, "C09.count-carries-the-subscription-id")
		isMax, attained := true, false
		for _, x := range rd.counts {
			isMax = vpAnd(isMax, x.Count <= cm.Count)
			attained = vpOr(attained, x.Count == cm.Count)
		}
		vpAssertKF(vpAnd(isMax, attained), "C09.count-is-the-maximum", "C09.same-id-in-flight", anyDup)
	}
	if len(rounds) == 0 {
		vpAssertKF(emitted == submitted, "C09.one-count-per-request", "C09.same-id-in-flight", anyDup)
	}
	vpReach("end")
}

// C08: merged REQ. One EOSE exactly when the last child's EOSE arrives, none
// after CLOSE, never a second; before it the forwarded events match, are
// pairwise distinct, non-increasing in created_at, at most limit for a single
// filter; after it everything is forwarded unchanged. Re-REQ of the id only
// after its merged EOSE (the statement's assumption).
func vpH_C08_req() {
	n := 2
	if vpTier() > 0 {
		n = 2 + vpChoice("children", 2)
	}
	ss := vpNewMergeSession(n)
	var fs []*ReqFilter
	fshape := vpChoice("filters", 4)
	switch fshape {
	case 0:
		fs = []*ReqFilter{{}}
	case 1:
		l := vpInt64("limit")
		vpAssume(l >= 0)
		fs = []*ReqFilter{{Limit: &l}}
	case 2:
		fs = []*ReqFilter{{Kinds: []int64{vpInt64("fkind")}}}
	case 3:
		l := vpInt64("limit")
		vpAssume(l >= 0)
		fs = []*ReqFilter{{Kinds: []int64{vpInt64("fkind")}, Limit: &l}, {Authors: []string{"A"}}}
	}
	ss.handleRecvMsg(&ClientReqMsg{SubscriptionID: "s", ReqFilters: fs})
	steps := 4 // both tiers (5 steps with 2..3 children ran past an hour; the thorough tier adds a third child)
	childEOSE := make([]bool, n)
	eoseSeen, closed := false, false
	var fwd []*Event
	var all []*Event
	for k := 0; k < steps; k++ {
		op := vpChoice("op", 4)
		switch op {
		case 0: // child event
			i := vpChoice("child", n)
			ev := &Event{ID: vpSym1("id"), Pubkey: "A", Kind: vpInt64("kind"), CreatedAt: vpInt64("at"), Tags: []Tag{}}
			if fshape == 3 && vpChoice("pk", 2) == 1 {
				ev.Pubkey = "B"
			}
			for _, o := range all { // A1: an id identifies an event
				vpAssume(vpImplies(o.ID == ev.ID, vpAnd(vpAnd(o.CreatedAt == ev.CreatedAt, o.Kind == ev.Kind), o.Pubkey == ev.Pubkey)))
			}
			all = append(all, ev)
			m := NewServerEventMsg("s", ev)
			out := ss.handleSendMsg(&mergeHandlerSessionSendMsg{Idx: i, Msg: m})
			sent := !isNilServerMsg(out)
			if sent {
				vpAssert(vpUnchanged(out, m), "C08.forwarded-unchanged")
			}
			if closed {
				break // unconstrained after CLOSE
			}
			if eoseSeen {
				vpAssert(sent, "C08.live-event-forwarded-after-eose")
				break
			}
			if sent {
				vpAssert(specMatchAny(fs, ev), "C08.stored-event-matches")
				for _, p := range fwd {
					vpAssert(p.ID != ev.ID, "C08.stored-events-distinct")
				}
				if len(fwd) > 0 {
					vpAssert(fwd[len(fwd)-1].CreatedAt >= ev.CreatedAt, "C08.stored-events-ordered")
				}
				fwd = append(fwd, ev)
				if len(fs) == 1 && fs[0].Limit != nil {
					vpAssert(int64(len(fwd)) <= *fs[0].Limit, "C08.limit-respected")
				}
			}
		case 1: // child EOSE
			i := vpChoice("child", n)
			m := NewServerEOSEMsg("s")
			out := ss.handleSendMsg(&mergeHandlerSessionSendMsg{Idx: i, Msg: m})
			sent := !isNilServerMsg(out)
			if closed || eoseSeen {
				vpAssert(!sent, "C08.no-eose-after-close-or-second")
				break
			}
			childEOSE[i] = true
			allE := true
			for _, b := range childEOSE {
				allE = allE && b
			}
			vpAssert(allE == sent, "C08.eose-exactly-when-all-children-sent-theirs")
			if sent {
				vpAssert(vpUnchanged(out, m), "C08.eose-unchanged")
				eoseSeen = true
			}
		case 2: // client CLOSE
			ss.handleRecvMsg(&ClientCloseMsg{SubscriptionID: "s"})
			closed = true
		case 3: // client re-REQ, only after the merged EOSE
			vpAssume(eoseSeen && !closed)
			ss.handleRecvMsg(&ClientReqMsg{SubscriptionID: "s", ReqFilters: fs})
			eoseSeen = false
			childEOSE = make([]bool, n)
			fwd = nil
		}
	}
	// messages of other types pass through unchanged
	nt := NewServerNoticeMsg("x")
	vpAssert(vpUnchanged(ss.handleSendMsg(&mergeHandlerSessionSendMsg{Idx: 0, Msg: nt}), nt), "C08.other-messages-pass")
	vpReach("end")
}
