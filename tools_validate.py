#!/usr/bin/env python3
import json, jsonschema, glob, sys
jsonschema.validate(json.load(open('/verif/MANIFEST.json')), json.load(open('/root/.vp/MANIFEST.schema.json')))
es = json.load(open('/root/.vp/EVIDENCE.schema.json'))
for f in sorted(glob.glob('/verif/evidence/*.json')):
    jsonschema.validate(json.load(open(f)), es)
    print("ok", f)
print("manifest valid")
