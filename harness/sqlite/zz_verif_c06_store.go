package sqlite

import (
	"strconv"
	"strings"

	"github.com/high-moctane/mocrelay"
)

func init() {
	vpHarnesses["vpH_C06_store"] = vpH_C06_store
	vpHarnesses["vpH_C14_reopen"] = vpH_C14_reopen
}

// C06 store differential. The SQL text is executed by SQLite's C engine, which the
// encoder cannot reach; what the solver can do is explore the REFERENCE MODEL of the
// statement (stored = newest version per address, no ephemeral events; live = not
// referenced by a same-author deletion request; a query = per filter the limit newest
// live matches) over symbolic histories and filters, and hand one witness per path of
// the model to a native run. The native run of this same function drives the real
// insertEvents/queryEvent on a real SQLite database (in memory, or on a file when the
// history contains a close/reopen) and asserts that every answer is one the model
// allows. A native assertion failure is reported as the violation.
//
// Histories: 3 events, three focus families (deletion requests and authors; tag
// conditions and limits; versions, duplicates, ephemeral events), batch splits and
// close/reopen placements as free choices, created_at symbolic.

type vpScenario struct {
	events  []*mocrelay.Event
	flush   []bool // a batch ends after event i
	reopen  []bool // the database is closed and reopened after the batch that ends at event i
	twice   []bool // the batch that ends at event i is inserted a second time
	filters []*mocrelay.ReqFilter
}

// vpNativeStore (native test build): runs the scenario on the real store and returns
// the answer to the filter list after every batch.
var vpNativeStore func(sc *vpScenario) [][]*mocrelay.Event

// ---- reference model -------------------------------------------------------------

type vpSpecStore struct {
	keys    []string
	rows    []*mocrelay.Event
	tombKey map[[2]string]bool // (address, author of the request)
	tombID  map[[2]string]bool // (id, author of the request)
}

func vpNewSpecStore() *vpSpecStore {
	return &vpSpecStore{tombKey: map[[2]string]bool{}, tombID: map[[2]string]bool{}}
}

func vpSpecKey(e *mocrelay.Event) (key string, addressed, stored bool) {
	k := e.Kind
	switch {
	case k == 0 || k == 3 || (10000 <= k && k < 20000):
		return strconv.FormatInt(k, 10) + ":" + e.Pubkey, true, true
	case 20000 <= k && k < 30000:
		return "", false, false
	case 30000 <= k && k < 40000:
		for _, t := range e.Tags {
			if len(t) >= 1 && t[0] == "d" {
				d := ""
				if len(t) > 1 {
					d = t[1]
				}
				return strconv.FormatInt(k, 10) + ":" + e.Pubkey + ":" + d, true, true
			}
		}
		return "", false, false
	}
	return "id:" + e.ID, false, true
}

func (s *vpSpecStore) insert(e *mocrelay.Event) {
	key, _, stored := vpSpecKey(e)
	if !stored {
		return
	}
	for i, k := range s.keys {
		if k != key {
			continue
		}
		old := s.rows[i]
		if old.ID == e.ID {
			return // duplicate
		}
		// two versions of one address with equal created_at: the statement does not say which is "newest"
		vpAssume(e.CreatedAt != old.CreatedAt)
		if e.CreatedAt < old.CreatedAt {
			return
		}
		s.rows[i] = e
		s.tombstones(e)
		return
	}
	s.keys = append(s.keys, key)
	s.rows = append(s.rows, e)
	s.tombstones(e)
}

func (s *vpSpecStore) tombstones(e *mocrelay.Event) {
	if e.Kind != 5 {
		return
	}
	for _, t := range e.Tags {
		if len(t) < 2 {
			continue
		}
		switch t[0] {
		case "e":
			s.tombID[[2]string{t[1], e.Pubkey}] = true
		case "a":
			s.tombKey[[2]string{t[1], e.Pubkey}] = true
		}
	}
}

func (s *vpSpecStore) live() []*mocrelay.Event {
	var out []*mocrelay.Event
	for i, e := range s.rows {
		if s.tombID[[2]string{e.ID, e.Pubkey}] {
			continue
		}
		if _, addressed, _ := vpSpecKey(e); addressed && s.tombKey[[2]string{s.keys[i], e.Pubkey}] {
			continue
		}
		out = append(out, e)
	}
	return out
}

func vpInList(l []string, v string) bool {
	for _, x := range l {
		if x == v {
			return true
		}
	}
	return false
}

func vpSpecMatch(f *mocrelay.ReqFilter, e *mocrelay.Event) bool {
	if f.IDs != nil && !vpInList(f.IDs, e.ID) {
		return false
	}
	if f.Authors != nil && !vpInList(f.Authors, e.Pubkey) {
		return false
	}
	if f.Kinds != nil {
		ok := false
		for _, k := range f.Kinds {
			if k == e.Kind {
				ok = true
			}
		}
		if !ok {
			return false
		}
	}
	if f.Since != nil && vpDecide(e.CreatedAt < *f.Since) {
		return false
	}
	if f.Until != nil && vpDecide(e.CreatedAt > *f.Until) {
		return false
	}
	for name, vs := range f.Tags {
		ok := false
		for _, t := range e.Tags {
			if len(t) >= 2 && t[0] == name && vpInList(vs, t[1]) {
				ok = true
			}
		}
		if !ok {
			return false
		}
	}
	return true
}

func vpSameEvent(a, b *mocrelay.Event) bool {
	if a.ID != b.ID || a.Pubkey != b.Pubkey || a.CreatedAt != b.CreatedAt || a.Kind != b.Kind || a.Content != b.Content || a.Sig != b.Sig {
		return false
	}
	if len(a.Tags) != len(b.Tags) {
		return false
	}
	for i := range a.Tags {
		if len(a.Tags[i]) != len(b.Tags[i]) {
			return false
		}
		for j := range a.Tags[i] {
			if a.Tags[i][j] != b.Tags[i][j] {
				return false
			}
		}
	}
	return true
}

// vpCheckStoreAnswer: got is an answer the statement allows for the filter list over
// the model's live set. Ties in created_at at a limit boundary may be broken either way.
func vpCheckStoreAnswer(prefix string, got []*mocrelay.Event, s *vpSpecStore, fs []*mocrelay.ReqFilter) {
	live := s.live()
	for i := 1; i < len(got); i++ {
		vpAssert(got[i-1].CreatedAt >= got[i].CreatedAt, prefix+"store-answer-newest-first")
	}
	inGot := map[string]bool{}
	for _, g := range got {
		vpAssert(!inGot[g.ID], prefix+"store-answer-without-duplicates")
		inGot[g.ID] = true
		var src *mocrelay.Event
		for _, e := range live {
			if e.ID == g.ID {
				src = e
			}
		}
		vpAssert(src != nil, prefix+"store-returned-is-stored-and-live")
		if src == nil {
			continue
		}
		vpAssert(vpSameEvent(src, g), prefix+"store-returned-identical-in-all-fields")
		justified := false
		for _, f := range fs {
			if !vpSpecMatch(f, src) {
				continue
			}
			newer := 0
			for _, e := range live {
				if e != src && vpSpecMatch(f, e) && e.CreatedAt > src.CreatedAt {
					newer++
				}
			}
			if f.Limit == nil || int64(newer) < *f.Limit {
				justified = true
			}
		}
		vpAssert(justified, prefix+"store-returned-is-justified")
	}
	for _, f := range fs {
		matching, have := 0, 0
		for _, e := range live {
			if !vpSpecMatch(f, e) {
				continue
			}
			matching++
			if inGot[e.ID] {
				have++
			}
			notOlder := 0
			for _, o := range live {
				if o != e && vpSpecMatch(f, o) && o.CreatedAt >= e.CreatedAt {
					notOlder++
				}
			}
			if f.Limit == nil || int64(notOlder) < *f.Limit {
				vpAssert(inGot[e.ID], prefix+"store-no-match-missing")
			}
		}
		want := int64(matching)
		if f.Limit != nil && *f.Limit < want {
			want = *f.Limit
		}
		vpAssert(int64(have) >= want, prefix+"store-limit-newest-served")
	}
}

// ---- generator -------------------------------------------------------------------

func vpStoreID(i int) string { return strings.Repeat(strconv.Itoa(i+1), 64) }

func vpStoreEvent(i int, pk string, kind, at int64, tags ...mocrelay.Tag) *mocrelay.Event {
	if tags == nil {
		tags = []mocrelay.Tag{}
	}
	return &mocrelay.Event{ID: vpStoreID(i), Pubkey: pk, Kind: kind, CreatedAt: at, Tags: tags,
		Content: "c" + strconv.Itoa(i), Sig: strings.Repeat("f", 128)}
}

func vpStoreLimit() *int64 {
	l := vpInt64("limit")
	vpAssume(l >= 0 && l <= 3)
	return &l
}

func vpH_C06_store() { vpStoreHarness("C06.", false) }

// C14 (restart and idempotence clauses): the same differential restricted to histories
// that close and reopen the file database between batches or insert a batch twice; every
// answer after a reopen / a repeated insertion must still be one the model allows (newer
// versions still replace, deletion requests still hide, nothing reappears or is lost).
func vpH_C14_reopen() { vpStoreHarness("C14.", true) }

func vpStoreHarness(prefix string, restart bool) {
	n := 3
	pks := [2]string{vpPkA, vpPkB}
	focus := 0
	if restart {
		focus = 2 * vpChoice("focus", 2) // deletion requests; versions
	} else {
		focus = vpChoice("focus", 3)
	}
	// thorough tier: additionally 4-event histories of the deletion and version families, one
	// batch per event (the restart harness reopens after every batch), the match-everything query
	long := vpTier() > 0 && focus != 1 && vpChoice("long", 2) == 1
	if long {
		n = 4
	}
	sc := &vpScenario{flush: make([]bool, n), reopen: make([]bool, n), twice: make([]bool, n)}
	for i := 0; i < n; i++ {
		at := vpInt64("created_at")
		vpAssume(at >= 1 && at <= 1000)
		pk := pks[0]
		if i > 0 {
			pk = pks[vpChoice("author", 2)]
		}
		var ev *mocrelay.Event
		switch focus {
		case 0: // deletion requests and authors
			switch vpChoice("class", 7) {
			case 0:
				ev = vpStoreEvent(i, pk, 30000, at, mocrelay.Tag{"d", ""})
			case 1:
				ev = vpStoreEvent(i, pk, 30000, at, mocrelay.Tag{"d", "x"})
			case 2:
				ev = vpStoreEvent(i, pk, 5, at, mocrelay.Tag{"a", "30000:" + pks[0] + ":x"})
			case 3:
				ev = vpStoreEvent(i, pk, 5, at, mocrelay.Tag{"a", "30000:" + pks[1] + ":x"})
			case 4:
				ev = vpStoreEvent(i, pk, 5, at, mocrelay.Tag{"e", vpStoreID((i + 1) % n)})
			case 5:
				ev = vpStoreEvent(i, pk, 5, at, mocrelay.Tag{"e", vpStoreID((i + 2) % n), "wss://relay.example"})
			case 6:
				ev = vpStoreEvent(i, pk, 1, at)
			}
		case 1: // tag conditions and limits
			switch vpChoice("tags", 5) {
			case 0:
				ev = vpStoreEvent(i, pk, 1, at)
			case 1:
				ev = vpStoreEvent(i, pk, 1, at, mocrelay.Tag{"t", "x"})
			case 2:
				ev = vpStoreEvent(i, pk, 1, at, mocrelay.Tag{"t", "y"})
			case 3:
				ev = vpStoreEvent(i, pk, 1, at, mocrelay.Tag{"t", "x"}, mocrelay.Tag{"t", "y"})
			case 4:
				ev = vpStoreEvent(i, pk, 1, at, mocrelay.Tag{"t", "x"}, mocrelay.Tag{"p", pks[0], "wss://relay.example"})
			}
		case 2: // versions, duplicates, ephemeral events
			c := vpChoice("class", 6)
			if c == 3 && i == 0 {
				c = 5
			}
			switch c {
			case 0:
				ev = vpStoreEvent(i, pk, 0, at)
			case 1:
				ev = vpStoreEvent(i, pk, 10000, at)
			case 2:
				ev = vpStoreEvent(i, pk, 30000, at, mocrelay.Tag{"d", "x"}, mocrelay.Tag{"d", "y"})
			case 3:
				ev = sc.events[0] // the first event offered again
			case 4:
				ev = vpStoreEvent(i, pk, 20000, at)
			case 5:
				ev = vpStoreEvent(i, pk, 1, at)
			}
		}
		sc.events = append(sc.events, ev)
	}
	// a deletion request that references another deletion request by id: whether the
	// referenced request keeps acting is not stated; such histories are left out
	for _, ev := range sc.events {
		if ev.Kind == 5 && ev.Tags[0][0] == "e" {
			for _, o := range sc.events {
				vpAssume(!(o.ID == ev.Tags[0][1] && o.Kind == 5))
			}
		}
	}
	batches := 0
	switch {
	case long:
		batches = -1
		for i := 0; i < n; i++ {
			sc.flush[i] = true
			sc.reopen[i] = restart
		}
	case restart:
		batches = 2 + vpChoice("restart", 5)
	default:
		batches = vpChoice("batches", 4)
	}
	switch batches {
	case 0: // one batch
		sc.flush[n-1] = true
	case 1: // one batch per event
		sc.flush[0], sc.flush[1], sc.flush[2] = true, true, true
	case 2: // ... closing and reopening the database after the first batch
		sc.flush[0], sc.flush[1], sc.flush[2] = true, true, true
		sc.reopen[0] = true
	case 3: // two events, reopen, third event
		sc.flush[1], sc.flush[2] = true, true
		sc.reopen[1] = true
	case 4: // one batch per event, reopening after every batch
		sc.flush[0], sc.flush[1], sc.flush[2] = true, true, true
		sc.reopen[0], sc.reopen[1], sc.reopen[2] = true, true, true
	case 5: // one batch per event, each inserted twice
		sc.flush[0], sc.flush[1], sc.flush[2] = true, true, true
		sc.twice[0], sc.twice[1], sc.twice[2] = true, true, true
	case 6: // one batch, inserted twice, then a reopen
		sc.flush[n-1], sc.twice[n-1], sc.reopen[n-1] = true, true, true
	}
	fsel := focus
	if long {
		fsel = -1
		sc.filters = []*mocrelay.ReqFilter{{}}
	}
	switch fsel {
	case 0:
		switch vpChoice("filter", 3) {
		case 0:
			sc.filters = []*mocrelay.ReqFilter{{}}
		case 1:
			sc.filters = []*mocrelay.ReqFilter{{Authors: []string{pks[0]}}}
		case 2:
			sc.filters = []*mocrelay.ReqFilter{{Kinds: []int64{30000}, Limit: vpStoreLimit()}}
		}
	case 1:
		switch vpChoice("filter", 6) {
		case 0:
			sc.filters = []*mocrelay.ReqFilter{{Tags: map[string][]string{"t": {"x"}}}}
		case 1:
			sc.filters = []*mocrelay.ReqFilter{{Tags: map[string][]string{"t": {"x", "y"}}}}
		case 2:
			sc.filters = []*mocrelay.ReqFilter{{Tags: map[string][]string{"t": {"x", "y"}}, Limit: vpStoreLimit()}}
		case 3:
			sc.filters = []*mocrelay.ReqFilter{{Tags: map[string][]string{"t": {"x"}, "p": {pks[0]}}}}
		case 4:
			sc.filters = []*mocrelay.ReqFilter{{Tags: map[string][]string{"t": {"x"}}}, {Tags: map[string][]string{"t": {"y"}}, Limit: vpStoreLimit()}}
		case 5:
			sc.filters = []*mocrelay.ReqFilter{{Tags: map[string][]string{"t": {"x", "y"}}, Authors: []string{pks[0]}, Limit: vpStoreLimit()}}
		}
	case 2:
		switch vpChoice("filter", 6) {
		case 5: // an empty filter list matches nothing
			sc.filters = []*mocrelay.ReqFilter{}
		case 0:
			sc.filters = []*mocrelay.ReqFilter{{}}
		case 1:
			sc.filters = []*mocrelay.ReqFilter{{Limit: vpStoreLimit()}}
		case 2:
			since, until := vpInt64("since"), vpInt64("until")
			sc.filters = []*mocrelay.ReqFilter{{Since: &since, Until: &until}}
		case 3:
			sc.filters = []*mocrelay.ReqFilter{{Kinds: []int64{0, 30000}}}
		case 4:
			sc.filters = []*mocrelay.ReqFilter{{IDs: []string{vpStoreID(0), vpStoreID(1)}}, {Limit: vpStoreLimit()}}
		}
	}

	spec := vpNewSpecStore()
	if vpSymbolic() {
		// the engine explores the model: one path per way the history is stored and the
		// filters select (version order, since/until sides, limit against the number of matches)
		for _, ev := range sc.events {
			spec.insert(ev)
		}
		for _, f := range sc.filters {
			m := int64(0)
			for _, e := range spec.live() {
				if vpSpecMatch(f, e) {
					m++
				}
			}
			if f.Limit != nil && vpDecide(*f.Limit < m) {
				continue // the limit binds: a class of its own
			}
		}
		vpReach("end")
		return
	}
	if vpNativeStore == nil {
		panic("native store hook missing")
	}
	answers := vpNativeStore(sc)
	k := 0
	for i, ev := range sc.events {
		spec.insert(ev)
		if sc.flush[i] {
			vpCheckStoreAnswer(prefix, answers[k], spec, sc.filters)
			k++
		}
	}
	vpReach("end")
}
