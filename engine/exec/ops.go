package exec

import (
	"fmt"
	"go/constant"
	"go/token"
	"go/types"
	"math"

	"golang.org/x/tools/go/ssa"
	"symgo/smt"
)

func constantStringVal(c *ssa.Const) string { return constant.StringVal(c.Value) }

// concreteInt forces an integer term to a concrete value: constants pass, a
// symbolic term is enumerated under the path condition (small ranges only).
func (e *Exec) concreteInt(v Value, what string) int64 {
	t := v.(*smt.Term)
	if s, ok := t.ConstS(); ok {
		return s
	}
	return e.enumerate(t, what)
}

// indexIn returns a concrete in-range index; out-of-range feasibility is a panic obligation.
func (e *Exec) indexIn(idx *smt.Term, idxT types.Type, n int) int {
	if s, ok := idx.ConstS(); ok {
		_, signed, _ := intWidth(idxT)
		if !signed {
			u, _ := idx.ConstU()
			if u >= uint64(n) {
				e.runtimePanic(fmt.Sprintf("index out of range [%d] with length %d", u, n))
			}
			return int(u)
		}
		if s < 0 || s >= int64(n) {
			e.runtimePanic(fmt.Sprintf("index out of range [%d] with length %d", s, n))
		}
		return int(s)
	}
	i64 := e.toWidth(idx, idxT, 64)
	// alternatives: 0..n-1 and out of range
	conds := make([]*smt.Term, n+1)
	for i := 0; i < n; i++ {
		conds[i] = e.c.Eq(i64, e.mkInt(int64(i)))
	}
	conds[n] = e.c.Not(e.c.Cmp(smt.KUlt, i64, e.mkInt(int64(n))))
	k := e.decideN(conds, "index")
	if k == n {
		e.runtimePanic(fmt.Sprintf("index out of range [symbolic] with length %d", n))
	}
	return k
}

// indexRead reads vals[idx]; scalar tables with a symbolic index become one ITE term.
func (e *Exec) indexRead(vals []Value, idx *smt.Term, idxT types.Type, elemT types.Type) Value {
	n := len(vals)
	if _, ok := idx.ConstS(); ok {
		return copyVal(vals[e.indexIn(idx, idxT, n)])
	}
	allScalar := true
	for _, v := range vals {
		if _, ok := v.(*smt.Term); !ok {
			allScalar = false
			break
		}
	}
	if !allScalar || n == 0 {
		return copyVal(vals[e.indexIn(idx, idxT, n)])
	}
	i64 := e.toWidth(idx, idxT, 64)
	inRange := e.c.Cmp(smt.KUlt, i64, e.mkInt(int64(n)))
	if !e.decide(inRange) {
		e.runtimePanic(fmt.Sprintf("index out of range [symbolic] with length %d", n))
	}
	// balanced ITE tree over the index bits
	var build func(lo, hi int) *smt.Term
	build = func(lo, hi int) *smt.Term {
		if hi-lo == 1 {
			return vals[lo].(*smt.Term)
		}
		mid := (lo + hi) / 2
		return e.c.Ite(e.c.Cmp(smt.KUlt, i64, e.mkInt(int64(mid))), build(lo, mid), build(mid, hi))
	}
	return build(0, n)
}

// toWidth converts an integer term of static type t to width w (sign/zero extension by t).
func (e *Exec) toWidth(x *smt.Term, t types.Type, w int) *smt.Term {
	_, signed, ok := intWidth(t)
	if !ok {
		panic(fmt.Sprintf("toWidth: not an integer type %v", t))
	}
	if x.W == w {
		return x
	}
	if x.W > w {
		return e.c.Extract(x, w-1, 0)
	}
	if signed {
		return e.c.Sext(x, w)
	}
	return e.c.Zext(x, w)
}

// ---------------------------------------------------------------------------
// Unary / binary operators

func (e *Exec) unop(fr *frame, instr *ssa.UnOp, x Value) Value {
	switch instr.Op {
	case token.ARROW:
		return e.chanRecv(x.(*Chan), instr.CommaOk, instr.X.Type().Underlying().(*types.Chan).Elem())
	case token.MUL:
		if sp, ok := x.(*symPtr); ok {
			return e.symLoad(sp)
		}
		return e.load(x.(*Value))
	case token.SUB:
		switch x := x.(type) {
		case *smt.Term:
			return e.c.Neg(x)
		case float64:
			return -x
		}
	case token.NOT:
		return e.c.Not(x.(*smt.Term))
	case token.XOR:
		return e.c.BNot(x.(*smt.Term))
	}
	e.unsupported("unary op %s on %T", instr.Op, x)
	return nil
}

func (e *Exec) binop(op token.Token, t types.Type, x, y Value) Value {
	switch op {
	case token.EQL:
		return e.equals(t, x, y)
	case token.NEQ:
		return e.c.Not(e.equals(t, x, y))
	}
	switch x := x.(type) {
	case *smt.Term:
		yt := y.(*smt.Term)
		if x.W == 0 { // bool: only && || == != reach here via & | ^? (AND/OR on bools)
			switch op {
			case token.AND, token.LAND:
				return e.c.And(x, yt)
			case token.OR, token.LOR:
				return e.c.Or(x, yt)
			case token.XOR:
				return e.c.Not(e.c.Eq(x, yt))
			case token.AND_NOT:
				return e.c.And(x, e.c.Not(yt))
			}
			e.unsupported("bool binop %s", op)
		}
		_, signed, _ := intWidth(t)
		switch op {
		case token.ADD:
			return e.c.Bin(smt.KAdd, x, yt)
		case token.SUB:
			return e.c.Bin(smt.KSub, x, yt)
		case token.MUL:
			return e.c.Bin(smt.KMul, x, yt)
		case token.QUO, token.REM:
			if !e.decide(e.c.Not(e.c.Eq(yt, e.c.BV(0, yt.W)))) {
				e.runtimePanic("integer divide by zero")
			}
			var k smt.Kind
			switch {
			case op == token.QUO && signed:
				k = smt.KSDiv
			case op == token.QUO:
				k = smt.KUDiv
			case signed:
				k = smt.KSRem
			default:
				k = smt.KURem
			}
			return e.c.Bin(k, x, yt)
		case token.AND:
			return e.c.Bin(smt.KBAnd, x, yt)
		case token.OR:
			return e.c.Bin(smt.KBOr, x, yt)
		case token.XOR:
			return e.c.Bin(smt.KBXor, x, yt)
		case token.AND_NOT:
			return e.c.Bin(smt.KBAnd, x, e.c.BNot(yt))
		case token.SHL, token.SHR:
			return e.shift(op, x, signed, yt)
		case token.LSS:
			if signed {
				return e.c.Cmp(smt.KSlt, x, yt)
			}
			return e.c.Cmp(smt.KUlt, x, yt)
		case token.LEQ:
			if signed {
				return e.c.Cmp(smt.KSle, x, yt)
			}
			return e.c.Cmp(smt.KUle, x, yt)
		case token.GTR:
			if signed {
				return e.c.Cmp(smt.KSlt, yt, x)
			}
			return e.c.Cmp(smt.KUlt, yt, x)
		case token.GEQ:
			if signed {
				return e.c.Cmp(smt.KSle, yt, x)
			}
			return e.c.Cmp(smt.KUle, yt, x)
		}
	case float64:
		yf, ok := y.(float64)
		if !ok {
			switch op {
			case token.ADD, token.SUB, token.MUL, token.QUO:
				return FloatOf{}
			}
			e.unsupported("float comparison with symbolic operand")
		}
		switch op {
		case token.ADD:
			return x + yf
		case token.SUB:
			return x - yf
		case token.MUL:
			return x * yf
		case token.QUO:
			return x / yf
		case token.LSS:
			return e.c.Bool(x < yf)
		case token.LEQ:
			return e.c.Bool(x <= yf)
		case token.GTR:
			return e.c.Bool(x > yf)
		case token.GEQ:
			return e.c.Bool(x >= yf)
		}
	case FloatOf:
		switch op {
		case token.ADD, token.SUB, token.MUL, token.QUO:
			return FloatOf{} // unknown float: may only be passed around
		}
		e.unsupported("float comparison on float64(symbolic integer)")
	case Str:
		ys := y.(Str)
		switch op {
		case token.ADD:
			return e.strConcat(x, ys)
		case token.LSS:
			return e.strLess(x, ys, false)
		case token.LEQ:
			return e.strLess(x, ys, true)
		case token.GTR:
			return e.strLess(ys, x, false)
		case token.GEQ:
			return e.strLess(ys, x, true)
		}
	}
	e.unsupported("binop %s on %T", op, x)
	return nil
}

// shift implements Go's x << y / x >> y for a shift count of any integer width.
func (e *Exec) shift(op token.Token, x *smt.Term, signed bool, y *smt.Term) Value {
	w := x.W
	// Bring the count to width w, saturating at w (any count >= w behaves like w).
	var cnt *smt.Term
	if y.W > w {
		big := e.c.Not(e.c.Cmp(smt.KUlt, y, e.c.BV(uint64(w), y.W)))
		cnt = e.c.Ite(big, e.c.BV(uint64(w), w), e.c.Extract(y, w-1, 0))
	} else {
		cnt = e.c.Zext(y, w)
	}
	// (negative signed counts panic in Go; go/ssa inserts no check: treat as huge)
	switch {
	case op == token.SHL:
		return e.c.Bin(smt.KShl, x, cnt)
	case signed:
		return e.c.Bin(smt.KAshr, x, cnt)
	default:
		return e.c.Bin(smt.KLshr, x, cnt)
	}
}

// ---------------------------------------------------------------------------
// Equality

func (e *Exec) equals(t types.Type, x, y Value) *smt.Term {
	switch x := x.(type) {
	case *smt.Term:
		return e.c.Eq(x, y.(*smt.Term))
	case float64:
		if yf, ok := y.(float64); ok {
			return e.c.Bool(x == yf)
		}
		e.unsupported("float comparison with symbolic operand")
	case Str:
		return e.strEq(x, y.(Str))
	case *Value:
		return e.c.Bool(x == y.(*Value))
	case *Map:
		return e.c.Bool(x == y.(*Map)) // only comparison with nil is legal
	case *Chan:
		return e.c.Bool(x == y.(*Chan))
	case Slice:
		ys := y.(Slice)
		return e.c.Bool(x.A == nil && ys.A == nil) // only comparison with nil is legal
	case *ssa.Function:
		if yf, ok := y.(*ssa.Function); ok {
			return e.c.Bool(x == yf)
		}
		return e.c.False
	case *Closure:
		if yf, ok := y.(*ssa.Function); ok && yf == nil {
			return e.c.False
		}
		return e.c.Bool(x == y)
	case *ssa.Builtin:
		return e.c.False
	case *Opaque:
		yo, ok := y.(*Opaque)
		return e.c.Bool(ok && yo == x)
	case Struct:
		ys := y.(Struct)
		st := t.Underlying().(*types.Struct)
		r := e.c.True
		for i := range x {
			if st.Field(i).Name() == "_" {
				continue
			}
			r = e.c.And(r, e.equals(st.Field(i).Type(), x[i], ys[i]))
		}
		return r
	case Array:
		ya := y.(Array)
		et := t.Underlying().(*types.Array).Elem()
		r := e.c.True
		for i := range x {
			r = e.c.And(r, e.equals(et, x[i], ya[i]))
		}
		return r
	case Iface:
		yi := y.(Iface)
		if x.T == nil || yi.T == nil {
			return e.c.Bool(x.T == nil && yi.T == nil)
		}
		if !types.Identical(x.T, yi.T) {
			return e.c.False
		}
		if !types.Comparable(x.T) {
			e.runtimePanic(fmt.Sprintf("comparing uncomparable type %v", x.T))
		}
		return e.equals(x.T, x.V, yi.V)
	case Poison:
		e.unsupported("comparison of poisoned value: %s", x.Why)
	}
	e.unsupported("equality on %T", x)
	return nil
}

// ---------------------------------------------------------------------------
// Strings

func (e *Exec) strEq(x, y Str) *smt.Term {
	if x.OpaqueID != 0 || y.OpaqueID != 0 {
		if x.OpaqueID == y.OpaqueID && len(x.B) == 0 && len(y.B) == 0 {
			return e.c.True
		}
		e.unsupported("comparison of opaque string")
	}
	if len(x.B) != len(y.B) {
		return e.c.False
	}
	r := e.c.True
	for i := range x.B {
		r = e.c.And(r, e.c.Eq(x.B[i], y.B[i]))
		if r == e.c.False {
			return r
		}
	}
	return r
}

// strLess builds x < y (or x <= y) lexicographically on bytes.
func (e *Exec) strLess(x, y Str, orEq bool) *smt.Term {
	if x.OpaqueID != 0 || y.OpaqueID != 0 {
		e.unsupported("ordering of opaque string")
	}
	n := len(x.B)
	if len(y.B) < n {
		n = len(y.B)
	}
	// result when the common prefix is equal
	var tail *smt.Term
	switch {
	case len(x.B) < len(y.B):
		tail = e.c.True
	case len(x.B) > len(y.B):
		tail = e.c.False
	default:
		tail = e.c.Bool(orEq)
	}
	r := tail
	for i := n - 1; i >= 0; i-- {
		lt := e.c.Cmp(smt.KUlt, x.B[i], y.B[i])
		eq := e.c.Eq(x.B[i], y.B[i])
		r = e.c.Or(lt, e.c.And(eq, r))
	}
	return r
}

func (e *Exec) strConcat(x, y Str) Str {
	if x.OpaqueID != 0 || y.OpaqueID != 0 {
		return e.newOpaqueStr()
	}
	b := make([]*smt.Term, 0, len(x.B)+len(y.B))
	b = append(b, x.B...)
	b = append(b, y.B...)
	return Str{B: b}
}

func (e *Exec) newOpaqueStr() Str {
	e.opaqueStrs++
	return Str{OpaqueID: e.opaqueStrs}
}

// ---------------------------------------------------------------------------
// Conversions

func (e *Exec) conv(tDst, tSrc types.Type, x Value) Value {
	ut := tDst.Underlying()
	us := tSrc.Underlying()
	switch us := us.(type) {
	case *types.Pointer:
		switch ut.(type) {
		case *types.Pointer:
			return x
		case *types.Basic: // unsafe.Pointer
			return x
		}
	case *types.Slice:
		// []byte / []rune -> string
		xs := x.(Slice)
		if isString(ut) {
			eb, _ := us.Elem().Underlying().(*types.Basic)
			if eb != nil && eb.Kind() == types.Uint8 {
				b := make([]*smt.Term, len(xs.A))
				for i, v := range xs.A {
					b[i] = v.(*smt.Term)
				}
				return Str{B: b}
			}
			if eb != nil && eb.Kind() == types.Int32 {
				var rs []rune
				for _, v := range xs.A {
					c, ok := v.(*smt.Term).ConstS()
					if !ok {
						e.unsupported("string([]rune) with symbolic rune")
					}
					rs = append(rs, rune(c))
				}
				return e.mkStr(string(rs))
			}
		}
	case *types.Basic:
		if ut, ok := ut.(*types.Slice); ok && us.Info()&types.IsString != 0 {
			s := x.(Str)
			if s.OpaqueID != 0 {
				e.unsupported("[]byte(opaque string)")
			}
			eb := ut.Elem().Underlying().(*types.Basic)
			if eb.Kind() == types.Uint8 {
				a := make([]Value, len(s.B))
				for i, b := range s.B {
					a[i] = b
				}
				return Slice{A: a}
			}
			if eb.Kind() == types.Int32 {
				c, ok := s.Concrete()
				if !ok {
					e.unsupported("[]rune(symbolic string)")
				}
				rs := []rune(c)
				a := make([]Value, len(rs))
				for i, r := range rs {
					a[i] = e.c.BV(uint64(int64(r)), 32)
				}
				return Slice{A: a}
			}
		}
		if us.Kind() == types.UnsafePointer {
			return x
		}
		ub, ok := ut.(*types.Basic)
		if !ok {
			break
		}
		switch {
		case us.Info()&types.IsInteger != 0 && ub.Info()&types.IsInteger != 0:
			w, _, _ := intWidth(ub)
			return e.toWidth(x.(*smt.Term), us, w)
		case us.Info()&types.IsInteger != 0 && ub.Info()&types.IsString != 0:
			c, ok := x.(*smt.Term).ConstS()
			if !ok {
				e.unsupported("string(symbolic integer)")
			}
			return e.mkStr(string(rune(c)))
		case us.Info()&types.IsInteger != 0 && ub.Info()&types.IsFloat != 0:
			t := x.(*smt.Term)
			_, signed, _ := intWidth(us)
			if signed {
				if c, ok := t.ConstS(); ok {
					return float64(c)
				}
			} else if c, ok := t.ConstU(); ok {
				return float64(c)
			}
			return FloatOf{T: t, Signed: signed}
		case us.Info()&types.IsFloat != 0 && ub.Info()&types.IsInteger != 0:
			w, signed, _ := intWidth(ub)
			switch f := x.(type) {
			case float64:
				if signed {
					return e.c.BV(uint64(int64(f)), w)
				}
				return e.c.BV(uint64(f), w)
			case FloatOf:
				if f.T == nil {
					e.unsupported("conversion of an unknown float to an integer")
				}
				// float64(int) -> int is the identity only for |x| <= 2^53; beyond that the
				// value was rounded: the result is an arbitrary integer (fresh variable)
				t64 := e.toWidthSigned(f.T, f.Signed, 64)
				lim := e.mkInt(1 << 53)
				var exact *smt.Term
				if f.Signed {
					exact = e.c.And(e.c.Cmp(smt.KSle, e.c.Neg(lim), t64), e.c.Cmp(smt.KSle, t64, lim))
				} else {
					exact = e.c.Cmp(smt.KUle, t64, lim)
				}
				r := e.toWidthSigned(f.T, f.Signed, w)
				if b, ok := exact.ConstBool(); ok && b {
					return r
				}
				return e.c.Ite(exact, r, e.freshInt("float-rounding", w))
			}
		case us.Info()&types.IsFloat != 0 && ub.Info()&types.IsFloat != 0:
			if f, ok := x.(float64); ok {
				if ub.Kind() == types.Float32 {
					return float64(float32(f))
				}
				return f
			}
			return x
		case us.Info()&types.IsString != 0 && ub.Info()&types.IsString != 0:
			return x
		case us.Info()&types.IsBoolean != 0 && ub.Info()&types.IsBoolean != 0:
			return x
		}
	}
	e.unsupported("conversion %v -> %v", tSrc, tDst)
	return nil
}

func (e *Exec) toWidthSigned(x *smt.Term, signed bool, w int) *smt.Term {
	if x.W == w {
		return x
	}
	if x.W > w {
		return e.c.Extract(x, w-1, 0)
	}
	if signed {
		return e.c.Sext(x, w)
	}
	return e.c.Zext(x, w)
}

// ---------------------------------------------------------------------------
// Slicing

func (e *Exec) sliceOp(instr *ssa.Slice, x, lo, hi, max Value) Value {
	var Len, Cap int
	switch x := x.(type) {
	case Str:
		if x.OpaqueID != 0 {
			e.unsupported("slicing an opaque string")
		}
		Len = len(x.B)
		Cap = Len
	case Slice:
		Len = len(x.A)
		Cap = cap(x.A)
	case *Value:
		if x == nil {
			e.runtimePanic("invalid memory address or nil pointer dereference")
		}
		a := (*x).(Array)
		Len = len(a)
		Cap = len(a)
	}
	l := int64(0)
	if lo != nil {
		l = e.concreteInt(lo, "slice low bound")
	}
	h := int64(Len)
	if hi != nil {
		h = e.concreteInt(hi, "slice high bound")
	}
	m := int64(Cap)
	if max != nil {
		m = e.concreteInt(max, "slice max bound")
	}
	if _, isStr := x.(Str); isStr {
		if l < 0 || h < l || h > int64(Len) {
			e.runtimePanic(fmt.Sprintf("slice bounds out of range [%d:%d] with length %d", l, h, Len))
		}
	} else if l < 0 || h < l || m < h || m > int64(Cap) {
		e.runtimePanic(fmt.Sprintf("slice bounds out of range [%d:%d:%d] with capacity %d", l, h, m, Cap))
	}
	switch x := x.(type) {
	case Str:
		return Str{B: x.B[l:h:h]}
	case Slice:
		if x.A == nil {
			return Slice{}
		}
		return Slice{A: x.A[l:h:m]}
	case *Value:
		a := (*x).(Array)
		return Slice{A: []Value(a)[l:h:m]}
	}
	panic(fmt.Sprintf("slice: unexpected X type: %T", x))
}

// ---------------------------------------------------------------------------
// Type assertions

func (e *Exec) typeAssert(instr *ssa.TypeAssert, itf Iface) Value {
	var v Value
	err := ""
	if idst, ok := instr.AssertedType.Underlying().(*types.Interface); ok {
		v = itf
		if itf.T == nil {
			err = fmt.Sprintf("interface conversion: interface is nil, not %s", instr.AssertedType)
		} else if meth, _ := types.MissingMethod(itf.T, idst, true); meth != nil {
			err = fmt.Sprintf("interface conversion: %v is not %v: missing method %s", itf.T, idst, meth.Name())
		}
	} else if itf.T != nil && types.Identical(itf.T, instr.AssertedType) {
		v = itf.V
	} else {
		err = fmt.Sprintf("interface conversion: interface is %v, not %s", itf.T, instr.AssertedType)
	}
	if err != "" {
		if !instr.CommaOk {
			e.runtimePanic(err)
		}
		return Tuple{e.zero(instr.AssertedType), e.c.False}
	}
	if instr.CommaOk {
		return Tuple{v, e.c.True}
	}
	return v
}

// ---------------------------------------------------------------------------
// Builtins

func (e *Exec) callBuiltin(caller *frame, callpos token.Pos, fn *ssa.Builtin, args []Value) Value {
	switch fn.Name() {
	case "append":
		if len(args) == 1 {
			return args[0]
		}
		dst := args[0].(Slice)
		var src []Value
		switch s := args[1].(type) {
		case Str: // append([]byte, string...)
			if s.OpaqueID != 0 {
				e.unsupported("append of opaque string")
			}
			for _, b := range s.B {
				src = append(src, b)
			}
		case Slice:
			src = s.A
		}
		if len(src) == 0 {
			return dst
		}
		return Slice{A: e.appendVals(dst.A, src)}
	case "copy":
		dst := args[0].(Slice)
		var src []Value
		switch s := args[1].(type) {
		case Str:
			for _, b := range s.B {
				src = append(src, b)
			}
		case Slice:
			src = s.A
		}
		n := len(src)
		if len(dst.A) < n {
			n = len(dst.A)
		}
		tmp := make([]Value, n)
		for i := 0; i < n; i++ {
			tmp[i] = copyVal(src[i])
		}
		copy(dst.A, tmp)
		return e.mkInt(int64(n))
	case "close":
		e.chanClose(args[0].(*Chan))
		return nil
	case "delete":
		m := args[0].(*Map)
		if m != nil {
			e.mapDelete(m, args[1])
		}
		return nil
	case "print", "println":
		return nil
	case "Sizeof", "Alignof":
		// only reached in instantiated generic code (elsewhere the compiler folds it)
		if sig, ok := fn.Type().(*types.Signature); ok && sig.Params().Len() == 1 {
			sz := types.SizesFor("gc", "amd64")
			if fn.Name() == "Sizeof" {
				return e.c.BV(uint64(sz.Sizeof(sig.Params().At(0).Type())), 64)
			}
			return e.c.BV(uint64(sz.Alignof(sig.Params().At(0).Type())), 64)
		}
	case "len":
		switch x := args[0].(type) {
		case Str:
			if x.OpaqueID != 0 {
				e.unsupported("len of opaque string")
			}
			return e.mkInt(int64(len(x.B)))
		case Array:
			return e.mkInt(int64(len(x)))
		case *Value:
			if x == nil {
				e.runtimePanic("nil pointer dereference in len")
			}
			return e.mkInt(int64(len((*x).(Array))))
		case Slice:
			return e.mkInt(int64(len(x.A)))
		case *Map:
			if x == nil {
				return e.mkInt(0)
			}
			e.monitorMap(x, false)
			return e.mkInt(int64(x.N))
		case *Chan:
			if x == nil {
				return e.mkInt(0)
			}
			return e.mkInt(int64(len(x.buf)))
		}
		panic(fmt.Sprintf("len: illegal operand: %T", args[0]))
	case "cap":
		switch x := args[0].(type) {
		case Array:
			return e.mkInt(int64(len(x)))
		case *Value:
			return e.mkInt(int64(len((*x).(Array))))
		case Slice:
			return e.mkInt(int64(cap(x.A)))
		case *Chan:
			if x == nil {
				return e.mkInt(0)
			}
			return e.mkInt(int64(x.cap))
		}
		panic(fmt.Sprintf("cap: illegal operand: %T", args[0]))
	case "min", "max":
		return e.minmax(fn.Name() == "min", fn.Type().(*types.Signature).Params().At(0).Type(), args)
	case "panic":
		panic(targetPanic{v: args[0], msg: e.panicText(args[0])})
	case "recover":
		return e.doRecover(caller)
	case "ssa:wrapnilchk":
		recv := args[0]
		if p, ok := recv.(*Value); ok && p == nil {
			e.runtimePanic("value method called using nil pointer")
		}
		return recv
	case "clear":
		switch x := args[0].(type) {
		case *Map:
			if x != nil {
				x.Ents = nil
				x.N = 0
			}
		case Slice:
			if st, ok := fn.Type().(*types.Signature); ok && st.Params().Len() == 1 {
				if sl, ok := st.Params().At(0).Type().Underlying().(*types.Slice); ok {
					for i := range x.A {
						x.A[i] = e.zero(sl.Elem())
					}
					return nil
				}
			}
			e.unsupported("clear(slice) of unknown element type")
		}
		return nil
	}
	e.unsupported("builtin %s", fn.Name())
	return nil
}

func (e *Exec) minmax(isMin bool, t types.Type, args []Value) Value {
	r := args[0]
	for _, a := range args[1:] {
		switch x := r.(type) {
		case *smt.Term:
			y := a.(*smt.Term)
			_, signed, _ := intWidth(t)
			k := smt.KUlt
			if signed {
				k = smt.KSlt
			}
			var c *smt.Term
			if isMin {
				c = e.c.Cmp(k, y, x)
			} else {
				c = e.c.Cmp(k, x, y)
			}
			r = e.c.Ite(c, y, x)
		case float64:
			y := a.(float64)
			if isMin {
				r = math.Min(x, y)
			} else {
				r = math.Max(x, y)
			}
		default:
			e.unsupported("min/max on %T", r)
		}
	}
	return r
}

// appendVals implements append's aliasing: reuse the backing array when the
// capacity suffices, otherwise allocate max(2*cap, needed).
func (e *Exec) appendVals(dst []Value, src []Value) []Value {
	need := len(dst) + len(src)
	if need <= cap(dst) {
		out := dst[:need]
		for i, v := range src {
			out[len(dst)+i] = copyVal(v)
		}
		return out
	}
	nc := 2 * cap(dst)
	if nc < need {
		nc = need
	}
	out := make([]Value, need, nc)
	copy(out, dst)
	for i, v := range src {
		out[len(dst)+i] = copyVal(v)
	}
	return out
}
