package mocrelay

import (
	"sync"
	"sync/atomic"
)

func init() {
	vpHarnesses["vpH_C15_schedules"] = vpH_C15_schedules
	vpHarnesses["vpH_C15_schedwitness"] = vpH_C15_schedwitness
}

// C15 over schedules (bounded): two writers and one reader race on one store; the
// scheduler is part of the path (vpPreempt: at every mutex/atomic/channel operation the
// running goroutine may be preempted in favour of any other runnable one; every schedule
// with at most k preemptions is a path of its own). Linearizability is judged against the
// store's own sequential behaviour (C04/C05 decide that it is the specified one):
//
//   - the two insertions' results and the final listing equal those of one of the two
//     sequential orders;
//   - whatever the reader saw (match-everything listing, an index-served listing, Len)
//     is what one of the five reachable sequential states shows;
//   - no listing shows more than capacity events, two versions of one address, or an
//     event together with a retained deletion request of its author that references it.
//
// Events: e0 an addressable event of author A (pre-inserted); e1, e2 each a newer/older
// version of the same address, a deletion request of A naming e0 by id or by address, or
// a regular event; all created_at symbolic; capacity 1..3.
type vpC15State struct {
	all, sel, two []*Event
	n             int
}

func vpC15Event(i int, d string) *Event {
	at := vpInt64("at")
	e := &Event{ID: string(rune('0' + i)), Pubkey: "A", CreatedAt: at, Tags: []Tag{}}
	switch vpChoice("class", 4) {
	case 0:
		e.Kind = 30000
		e.Tags = append(e.Tags, Tag{"d", d})
	case 1:
		e.Kind = 5
		e.Tags = append(e.Tags, Tag{"e", "0"})
	case 2:
		e.Kind = 5
		e.Tags = append(e.Tags, Tag{"a", "30000:A:" + d})
	case 3:
		e.Kind = 1
	}
	return e
}

var vpC15Sel = []*ReqFilter{{Authors: []string{"A"}, Kinds: []int64{30000}}}
var vpC15All = []*ReqFilter{{}}

// a filter list: one query, one moment (a store change between its members must not show)
var vpC15Two = []*ReqFilter{{Kinds: []int64{30000}}, {Kinds: []int64{5, 1}}}

func vpC15Observe(c *EventCache) vpC15State {
	return vpC15State{all: c.Find(vpC15All), sel: c.Find(vpC15Sel), two: c.Find(vpC15Two), n: c.Len()}
}

func vpH_C15_schedules() {
	if !vpSymbolic() {
		vpReach("end")
		return
	}
	capacity := 1 + vpChoice("cap", 3)
	e0 := &Event{ID: "0", Pubkey: "A", Kind: 30000, CreatedAt: vpInt64("at"), Tags: []Tag{{"d", "x"}}}
	e1 := vpC15Event(1, "x")
	e2 := vpC15Event(2, "x")

	// sequential reference: the five reachable states and the two orders' results
	var states []vpC15State
	type outcome struct {
		f1, f2 bool
		final  vpC15State
	}
	var orders [2]outcome
	for o := 0; o < 2; o++ {
		c := NewEventCache(capacity)
		c.Add(e0)
		if o == 0 {
			states = append(states, vpC15Observe(c))
			orders[o].f1 = c.Add(e1)
			states = append(states, vpC15Observe(c))
			orders[o].f2 = c.Add(e2)
		} else {
			orders[o].f2 = c.Add(e2)
			states = append(states, vpC15Observe(c))
			orders[o].f1 = c.Add(e1)
		}
		orders[o].final = vpC15Observe(c)
		states = append(states, orders[o].final)
	}

	c := NewEventCache(capacity)
	c.Add(e0)
	var f1, f2 bool
	var seen vpC15State
	vpPreempt(vpSteps(2, 4))
	var wg sync.WaitGroup
	wg.Add(3)
	go func() { defer wg.Done(); f1 = c.Add(e1) }()
	go func() { defer wg.Done(); f2 = c.Add(e2) }()
	go func() {
		defer wg.Done()
		seen.all = c.Find(vpC15All)
		seen.sel = c.Find(vpC15Sel)
		seen.two = c.Find(vpC15Two)
		seen.n = c.Len()
	}()
	wg.Wait()
	vpPreempt(0)
	final := vpC15Observe(c)

	okOrder := false
	for _, o := range orders {
		if o.f1 == f1 && o.f2 == f2 && vpSameSet(o.final.all, final.all) && o.final.n == final.n {
			okOrder = true
		}
	}
	vpAssert(okOrder, "C15.schedules-writers-equal-a-sequential-order")
	okAll, okSel, okLen, okTwo := false, false, false, false
	for _, s := range states {
		if vpSameSet(s.all, seen.all) {
			okAll = true
		}
		if vpSameSet(s.sel, seen.sel) {
			okSel = true
		}
		if s.n == seen.n {
			okLen = true
		}
		if vpSameSet(s.two, seen.two) {
			okTwo = true
		}
	}
	vpAssert(okTwo, "C15.schedules-filter-list-answer-is-a-sequential-state")
	vpAssert(okAll, "C15.schedules-listing-is-a-sequential-state")
	vpAssert(okSel, "C15.schedules-index-listing-is-a-sequential-state")
	vpAssert(okLen, "C15.schedules-len-is-a-sequential-state")
	for _, l := range [][]*Event{seen.all, seen.two, final.all} {
		vpAssert(len(l) <= capacity, "C15.schedules-at-most-capacity")
		for _, k := range l {
			for _, x := range l {
				if k != x {
					vpAssert(!specRefs(k, x), "C15.schedules-no-event-with-its-deletion-request")
					vpAssert(!specSameAddr(k, x), "C15.schedules-one-version-per-address")
				}
			}
		}
	}
	vpReach("end")
}

// Vacuity guard for the schedule exploration itself: a deliberately racy counter (atomic
// load, then atomic store of the incremented value, in two goroutines). With one
// preemption the lost update must be reachable, and so must the serial outcome; the check
// requires both labels (checks.json "reach"), so a scheduler that silently stopped
// interleaving would make the check INCONCLUSIVE instead of passing everything.
func vpH_C15_schedwitness() {
	if !vpSymbolic() {
		vpReach("end")
		return
	}
	var x atomic.Int64
	var mu sync.Mutex
	guarded := 0
	vpPreempt(1)
	var wg sync.WaitGroup
	wg.Add(2)
	for i := 0; i < 2; i++ {
		go func() {
			defer wg.Done()
			v := x.Load()
			x.Store(v + 1)
			mu.Lock()
			g := guarded
			guarded = g + 1
			mu.Unlock()
		}()
	}
	wg.Wait()
	vpPreempt(0)
	if x.Load() == 1 {
		vpReach("lost-update")
	} else {
		vpReach("serial")
	}
	vpAssert(guarded == 2, "C15.schedwitness-mutex-protects")
	vpReach("end")
}
