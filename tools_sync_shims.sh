#!/bin/bash
# The vp shim and the native replay test are identical in every harnessed package except for the package clause.
cd "$(dirname "$0")"
for pkg in prometheus sqlite; do
  for f in zz_verif_vp.go zz_verif_replay_test.go; do
    sed "s/^package mocrelay$/package $pkg/" harness/mocrelay/$f > harness/$pkg/$f
  done
done
