// Package exec is a symbolic interpreter for go/ssa: integers and Booleans are
// SMT terms, strings are byte-term sequences of concrete length, the heap is
// concrete (pointers never alias symbolically), control forks by re-execution.
package exec

import (
	"fmt"
	"go/types"
	"strings"

	"golang.org/x/tools/go/ssa"
	"symgo/smt"
)

// Value is any interpreter value:
//
//	*smt.Term   bool (W==0) and every integer type (W = 8/16/32/64)
//	float64     concrete floating point (float32 too)
//	FloatOf     float64(integer term): only passed around / converted back
//	Str         string
//	*Value      pointer (nil pointer = (*Value)(nil))
//	Struct, Array
//	Slice       slice
//	*Map        map (nil map = (*Map)(nil))
//	*Chan       channel
//	Iface       interface value
//	Tuple
//	*ssa.Function, *Closure, *ssa.Builtin   function values
//	*Opaque     object of an opaque package / engine-level handle
//	Poison      result of an unexecutable initialiser; using it is unsupported
type Value interface{}

type Tuple []Value
type Array []Value
type Struct []Value

type Slice struct {
	A []Value // backing window: len(A) is the Go len, cap(A) the Go cap; nil slice = nil A
}

func (s Slice) IsNil() bool { return s.A == nil }

type Iface struct {
	T types.Type // dynamic type; nil for the nil interface
	V Value
}

type Closure struct {
	Fn  *ssa.Function
	Env []Value
}

type FloatOf struct {
	T      *smt.Term
	Signed bool
}

type Poison struct{ Why string }

// Opaque is an engine-level object: results of opaque-package calls, regexps,
// reflect.Values, fake handles. Identity is pointer identity.
type Opaque struct {
	Kind string
	Name string
	Data interface{}
	T    types.Type
}

// Str is an immutable string: concrete length, one 8-bit term per byte. An
// opaque string (OpaqueID != 0) has unknown content; only passing it around,
// concatenating it and comparing it with itself is supported.
type Str struct {
	B        []*smt.Term
	OpaqueID int
}

func (s Str) Len() int { return len(s.B) }

// Concrete returns the Go string when all bytes are constants.
func (s Str) Concrete() (string, bool) {
	if s.OpaqueID != 0 {
		return "", false
	}
	var sb strings.Builder
	for _, b := range s.B {
		v, ok := b.ConstU()
		if !ok {
			return "", false
		}
		sb.WriteByte(byte(v))
	}
	return sb.String(), true
}

// Map is an association list in insertion order; keys may be symbolic but are
// pairwise known-distinct on the current path (insert/lookup decide equality).
type Map struct {
	KeyT  types.Type
	ElemT types.Type
	Ents  []*MapEnt
	N     int // live entries
}

type MapEnt struct {
	K, V    Value
	Deleted bool
}

// ---------------------------------------------------------------------------
// type helpers

func deref(t types.Type) types.Type {
	if p, ok := t.Underlying().(*types.Pointer); ok {
		return p.Elem()
	}
	panic(fmt.Sprintf("deref: not a pointer: %v", t))
}

func intWidth(t types.Type) (w int, signed bool, ok bool) {
	b, isB := t.Underlying().(*types.Basic)
	if !isB {
		return 0, false, false
	}
	switch b.Kind() {
	case types.Int, types.Int64, types.UntypedInt:
		return 64, true, true
	case types.Int8:
		return 8, true, true
	case types.Int16:
		return 16, true, true
	case types.Int32, types.UntypedRune:
		return 32, true, true
	case types.Uint, types.Uint64, types.Uintptr:
		return 64, false, true
	case types.Uint8:
		return 8, false, true
	case types.Uint16:
		return 16, false, true
	case types.Uint32:
		return 32, false, true
	}
	return 0, false, false
}

func isString(t types.Type) bool {
	b, ok := t.Underlying().(*types.Basic)
	return ok && b.Info()&types.IsString != 0
}

func isBool(t types.Type) bool {
	b, ok := t.Underlying().(*types.Basic)
	return ok && b.Info()&types.IsBoolean != 0
}

func isFloat(t types.Type) bool {
	b, ok := t.Underlying().(*types.Basic)
	return ok && b.Info()&types.IsFloat != 0
}

func isInterface(t types.Type) bool {
	_, ok := t.Underlying().(*types.Interface)
	return ok
}

// zero returns the zero value of t.
func (e *Exec) zero(t types.Type) Value {
	switch t := t.(type) {
	case *types.Basic:
		if t.Info()&types.IsUntyped != 0 {
			if t.Kind() == types.UntypedNil {
				panic("zero of untyped nil")
			}
			t = types.Default(t).(*types.Basic)
		}
		switch {
		case t.Info()&types.IsBoolean != 0:
			return e.c.False
		case t.Info()&types.IsInteger != 0:
			w, _, _ := intWidth(t)
			return e.c.BV(0, w)
		case t.Info()&types.IsFloat != 0:
			return float64(0)
		case t.Info()&types.IsString != 0:
			return Str{}
		case t.Kind() == types.UnsafePointer:
			return (*Value)(nil)
		case t.Info()&types.IsComplex != 0:
			return Poison{"complex number"}
		}
		panic(fmt.Sprint("zero: unexpected basic ", t))
	case *types.Pointer:
		return (*Value)(nil)
	case *types.Array:
		a := make(Array, t.Len())
		for i := range a {
			a[i] = e.zero(t.Elem())
		}
		return a
	case *types.Named:
		return e.zero(t.Underlying())
	case *types.Alias:
		return e.zero(types.Unalias(t))
	case *types.Interface:
		return Iface{}
	case *types.Slice:
		return Slice{}
	case *types.Struct:
		s := make(Struct, t.NumFields())
		for i := range s {
			s[i] = e.zero(t.Field(i).Type())
		}
		return s
	case *types.Tuple:
		if t.Len() == 1 {
			return e.zero(t.At(0).Type())
		}
		s := make(Tuple, t.Len())
		for i := range s {
			s[i] = e.zero(t.At(i).Type())
		}
		return s
	case *types.Chan:
		return (*Chan)(nil)
	case *types.Map:
		return (*Map)(nil)
	case *types.Signature:
		return (*ssa.Function)(nil)
	case *types.TypeParam:
		panic("zero of type parameter (generic body executed uninstantiated)")
	}
	panic(fmt.Sprint("zero: unexpected ", t))
}

// copyVal returns a copy of v: structs and arrays are values in Go.
func copyVal(v Value) Value {
	switch v := v.(type) {
	case Struct:
		n := make(Struct, len(v))
		for i, x := range v {
			n[i] = copyVal(x)
		}
		return n
	case Array:
		n := make(Array, len(v))
		for i, x := range v {
			n[i] = copyVal(x)
		}
		return n
	case Tuple:
		n := make(Tuple, len(v))
		for i, x := range v {
			n[i] = copyVal(x)
		}
		return n
	}
	return v
}

func (e *Exec) mkStr(s string) Str {
	b := make([]*smt.Term, len(s))
	for i := 0; i < len(s); i++ {
		b[i] = e.byteConst[s[i]]
	}
	return Str{B: b}
}

func (e *Exec) intConst(v int64, t types.Type) *smt.Term {
	w, _, ok := intWidth(t)
	if !ok {
		panic(fmt.Sprintf("intConst: not an integer type %v", t))
	}
	return e.c.BV(uint64(v), w)
}

func (e *Exec) mkInt(v int64) *smt.Term { return e.c.BV(uint64(v), 64) }

// show renders a value for diagnostics and evidence samples.
func show(v Value) string {
	switch v := v.(type) {
	case nil:
		return "<nil>"
	case *smt.Term:
		if v.IsConst() {
			if v.W == 0 {
				return fmt.Sprint(v.Val != 0)
			}
			s, _ := v.ConstS()
			return fmt.Sprint(s)
		}
		return v.String()
	case Str:
		if s, ok := v.Concrete(); ok {
			return fmt.Sprintf("%q", s)
		}
		if v.OpaqueID != 0 {
			return fmt.Sprintf("<opaque string %d>", v.OpaqueID)
		}
		return fmt.Sprintf("<sym string len %d>", len(v.B))
	case Struct:
		var parts []string
		for _, x := range v {
			parts = append(parts, show(x))
		}
		return "{" + strings.Join(parts, " ") + "}"
	case Array:
		var parts []string
		for _, x := range v {
			parts = append(parts, show(x))
		}
		return "[" + strings.Join(parts, " ") + "]"
	case Slice:
		if v.A == nil {
			return "[]nil"
		}
		var parts []string
		for _, x := range v.A {
			parts = append(parts, show(x))
		}
		return "[" + strings.Join(parts, " ") + "]"
	case Iface:
		if v.T == nil {
			return "nil-iface"
		}
		return fmt.Sprintf("(%v)%s", v.T, show(v.V))
	case *Value:
		if v == nil {
			return "nil-ptr"
		}
		return fmt.Sprintf("&%p", v)
	case Tuple:
		var parts []string
		for _, x := range v {
			parts = append(parts, show(x))
		}
		return "(" + strings.Join(parts, ", ") + ")"
	}
	return fmt.Sprintf("%T", v)
}
