package mocrelay

import (
	"context"
)

func init() {
	vpHarnesses["vpH_C18_quota"] = vpH_C18_quota
	vpHarnesses["vpH_C18_unique"] = vpH_C18_unique
	vpHarnesses["vpH_C18_perconn"] = vpH_C18_perconn
}

func vpSteps(quick, thorough int) int {
	if vpTier() > 0 {
		return thorough
	}
	return quick
}

func vpIndexOf(l []string, v string) int {
	for i, x := range l {
		if x == v { // decided (fork or already known from the implementation's own comparison)
			return i
		}
	}
	return -1
}

// C18 quota: N free (>= 1); two sessions; REQ/CLOSE steps with symbolic 1-byte
// ids. Ghost open-set per session.
func vpH_C18_quota() {
	n := vpInt("N")
	vpAssume(n >= 1 && n <= 1<<20) // the session state pre-sizes a map with N+1 buckets
	base := newSimpleMaxSubscriptionsMiddlewareBase(n)
	var ctxs [2]context.Context
	for i := range ctxs {
		c, err := base.ServeNostrStart(context.Background())
		vpAssert(err == nil, "C18.start")
		ctxs[i] = c
	}
	open := [2][]string{}
	steps := vpSteps(4, 5)
	for k := 0; k < steps; k++ {
		s := vpChoice("session", 2)
		id := vpSym1("id")
		if vpChoice("op", 2) == 0 {
			msg := &ClientReqMsg{SubscriptionID: id, ReqFilters: []*ReqFilter{{}}}
			cm, sm, err := base.ServeNostrClientMsg(ctxs[s], msg)
			allowed := vpIndexOf(open[s], id) >= 0 || len(open[s]) < n
			vpCheckVerdict("C18.quota", msg, allowed, cm, sm, err)
			if allowed && vpIndexOf(open[s], id) < 0 {
				open[s] = append(open[s], id)
			}
		} else {
			msg := &ClientCloseMsg{SubscriptionID: id}
			cm, sm, err := base.ServeNostrClientMsg(ctxs[s], msg)
			vpCheckVerdict("C18.quota-close", msg, true, cm, sm, err)
			if i := vpIndexOf(open[s], id); i >= 0 {
				open[s] = append(open[s][:i:i], open[s][i+1:]...)
			}
		}
		vpAssert(len(open[0]) <= n && len(open[1]) <= n, "C18.quota-at-most-N-open")
	}
	vpCheckServerPass("C18.quota", base, ctxs[0])
	vpReach("end")
}

// C18 unique filters: the real hashicorp/golang-lru is executed. size in
// {1,2,3}; EVENT steps with symbolic 1-byte ids. Ghost recency list.
func vpH_C18_unique() {
	size := 1 + vpChoice("size", 3)
	recvSide := vpChoice("side", 2) == 0
	var rbase *simpleRecvEventUniqueFilterMiddlewareBase
	var sbase *simpleSendEventUniqueFilterMiddlewareBase
	if recvSide {
		rbase = newSimpleRecvEventUniqueFilterMiddlewareBase(size)
	} else {
		sbase = newSimpleSendEventUniqueFilterMiddlewareBase(size)
	}
	ctx := context.Background()
	var recent []string // most recent first, distinct
	steps := vpSteps(5, 6)
	for k := 0; k < steps; k++ {
		id := vpSym1("id")
		i := vpIndexOf(recent, id)
		inWindow := i >= 0 && i < size
		if recvSide {
			msg := &ClientEventMsg{Event: &Event{ID: id, Tags: []Tag{}}}
			cm, sm, err := rbase.ServeNostrClientMsg(ctx, msg)
			vpAssert(err == nil, "C18.unique-no-error")
			fwd := vpDrainClient(cm)
			rep := vpDrainServer(sm)
			if inWindow {
				vpAssert(len(fwd) == 0, "C18.unique-repeat-not-forwarded")
				vpAssert(len(rep) == 1, "C18.unique-repeat-answered-once")
				if len(rep) == 1 {
					ok, isOK := rep[0].(*ServerOKMsg)
					vpAssert(isOK && !ok.Accepted && ok.EventID == id && ok.MsgPrefix == MachineReadablePrefixDuplicate, "C18.unique-duplicate-marked-rejection")
				}
			} else if i < 0 {
				vpAssert(len(fwd) == 1 && len(rep) == 0, "C18.unique-unseen-forwarded")
				if len(fwd) == 1 {
					vpAssert(vpUnchanged(fwd[0], msg), "C18.unique-forward-unchanged")
				}
			}
			// an id seen earlier but outside the window may go either way per the statement
		} else {
			msg := NewServerEventMsg("s", &Event{ID: id, Tags: []Tag{}})
			ch, err := sbase.ServeNostrServerMsg(ctx, msg)
			vpAssert(err == nil, "C18.unique-no-error")
			out := vpDrainServer(ch)
			if inWindow {
				vpAssert(len(out) == 0, "C18.unique-send-repeat-dropped")
			} else if i < 0 {
				vpAssert(len(out) == 1, "C18.unique-send-unseen-delivered")
				if len(out) == 1 {
					vpAssert(vpUnchanged(out[0], msg), "C18.unique-send-unchanged")
				}
			}
		}
		// recency: id moves to the front
		if i >= 0 {
			recent = append(recent[:i:i], recent[i+1:]...)
		}
		recent = append([]string{id}, recent...)
	}
	// other message types are untouched by both filters
	if recvSide {
		m := &ClientCloseMsg{SubscriptionID: "x"}
		cm, sm, err := rbase.ServeNostrClientMsg(ctx, m)
		vpCheckVerdict("C18.unique", m, true, cm, sm, err)
		vpCheckServerPass("C18.unique", rbase, ctx)
	} else {
		m := &ClientEventMsg{Event: &Event{ID: "x", Tags: []Tag{}}}
		cm, sm, err := sbase.ServeNostrClientMsg(ctx, m)
		vpCheckVerdict("C18.unique", m, true, cm, sm, err)
	}
	vpReach("end")
}

// C18: the de-duplication state is per connection: each session served by the
// middleware gets its own base object (NewSimpleMiddleware stubbed to capture it).
func vpH_C18_perconn() {
	if !vpSymbolic() {
		vpReach("end")
		return
	}
	var bases []SimpleMiddlewareBase
	vpStub("github.com/high-moctane/mocrelay.NewSimpleMiddleware", func(b SimpleMiddlewareBase) Middleware {
		bases = append(bases, b)
		return func(h Handler) Handler { return h }
	})
	inner := HandlerFunc(func(ctx context.Context, send chan<- ServerMsg, recv <-chan ClientMsg) error { return nil })
	var h Handler
	if vpChoice("side", 2) == 0 {
		h = NewRecvEventUniqueFilterMiddleware(2)(inner)
	} else {
		h = NewSendEventUniqueFilterMiddleware(2)(inner)
	}
	for i := 0; i < 2; i++ {
		vpAssert(h.ServeNostr(context.Background(), nil, nil) == nil, "C18.perconn-serve")
	}
	vpAssert(len(bases) == 2, "C18.perconn-one-state-per-session")
	if len(bases) == 2 {
		vpAssert(!vpSameObject(bases[0], bases[1]), "C18.perconn-state-not-shared")
	}
	vpReach("end")
}
