package mocrelay

import "fmt"

func init() {
	vpHarnesses["vpH_C02_single"] = vpH_C02_single
	vpHarnesses["vpH_C02_limit"] = vpH_C02_limit
	vpHarnesses["vpH_C02_empty"] = vpH_C02_empty
	vpHarnesses["vpH_C02_longlists"] = vpH_C02_longlists
}

// C02 O1: for every event and every single filter, Match == NIP-01 predicate.
// Assumption (decided by C11): every tag has at least one element.
func vpH_C02_single() {
	maxTags, maxElems, maxList, maxKeys := 2, 2, 1, 2
	if vpTier() > 0 {
		maxTags, maxElems, maxList, maxKeys = 3, 2, 2, 2
	}
	e := vpGenEvent("e", maxTags, maxElems)
	f := vpGenFilter("f", maxList, maxKeys, false)
	m := NewReqFilterMatcher(f)
	got := m.Match(e)
	want := specMatch(f, e)
	vpNoteBool("match", got)
	vpAssert(got == want, "C02.match")
	vpReach("end")
}

// C02 O2: filter lists and limit counting: after every event of a sequence,
// LimitMatch/Match == OR of the members' predicates, and Done() <=> every
// filter has a limit and has matched at least that many events.
func vpH_C02_limit() {
	nf := 1 + vpChoice("nfilters", 2)
	nev := 2
	if vpTier() > 0 {
		nev = 3
	}
	fs := make([]*ReqFilter, nf)
	for i := range fs {
		// kinds absent or one value; since/until/limit each absent or free
		f := &ReqFilter{}
		if vpChoice("haskinds", 2) == 1 {
			f.Kinds = []int64{vpInt64(fmt.Sprintf("f%d.kind", i))}
		}
		f.Since = vpGenOptInt(fmt.Sprintf("f%d.since", i))
		f.Until = vpGenOptInt(fmt.Sprintf("f%d.until", i))
		f.Limit = vpGenOptInt(fmt.Sprintf("f%d.limit", i))
		fs[i] = f
	}
	m := NewReqFiltersEventLimitMatcher(fs)
	cnt := make([]int64, nf)
	vpAssert(m.Done() == specDone(fs, cnt), "C02.done-initial")
	for k := 0; k < nev; k++ {
		e := vpGenEvent(fmt.Sprintf("e%d", k), 0, 1)
		want := specMatchAny(fs, e)
		plain := m.Match(e)
		vpAssert(plain == want, "C02.list-match")
		got := m.LimitMatch(e)
		vpAssert(got == want, "C02.list-limitmatch")
		for i, f := range fs {
			cnt[i] += vpB2I(specMatch(f, e))
		}
		vpAssert(m.Done() == specDone(fs, cnt), "C02.done")
	}
	vpReach("end")
}

func specDone(fs []*ReqFilter, cnt []int64) bool {
	r := true
	for i, f := range fs {
		if f.Limit == nil {
			return false
		}
		r = vpAnd(r, *f.Limit <= cnt[i])
	}
	return r
}

// An empty filter list matches nothing and is exhausted.
func vpH_C02_empty() {
	e := vpGenEvent("e", 1, 2)
	m := NewReqFiltersEventLimitMatcher([]*ReqFilter{})
	vpAssert(!m.Match(e), "C02.empty-match")
	vpAssert(!m.LimitMatch(e), "C02.empty-limitmatch")
	vpReach("end")
}

// Longer condition lists (3..9 pairwise distinct values, in any order): the
// decision still equals membership. Guards against size-dependent strategies
// (sorting, binary search, small-list fast paths).
func vpH_C02_longlists() {
	n := 3 + vpChoice("n", 7)
	f := &ReqFilter{}
	e := &Event{ID: vpSym1("id"), Pubkey: vpSym1("pk"), Kind: vpInt64("kind"), CreatedAt: vpInt64("at"), Tags: []Tag{{vpSym1("tname"), vpSym1("tval")}}}
	which := vpChoice("field", 4)
	switch which {
	case 0:
		for i := 0; i < n; i++ {
			k := vpInt64("k")
			for _, o := range f.Kinds {
				vpAssume(o != k)
			}
			f.Kinds = append(f.Kinds, k)
		}
	default:
		var l []string
		for i := 0; i < n; i++ {
			v := vpSym1("v")
			for _, o := range l {
				vpAssume(o != v)
			}
			l = append(l, v)
		}
		switch which {
		case 1:
			f.IDs = l
		case 2:
			f.Authors = l
		case 3:
			f.Tags = map[string][]string{vpSym1("fname"): l}
		}
	}
	m := NewReqFilterMatcher(f)
	got := m.Match(e)
	vpNoteBool("match", got)
	vpAssert(got == specMatch(f, e), "C02.match-long-list")
	vpReach("end")
}
