package mocrelay

import "fmt"

func init() {
	vpHarnesses["vpH_C04_history"] = vpH_C04_history
	vpHarnesses["vpH_C04_eventType"] = vpH_C04_eventType
	vpHarnesses["vpH_C04_rich"] = vpH_C04_rich
	vpHarnesses["vpH_C05_history"] = vpH_C05_history
	vpHarnesses["vpH_C03_query"] = vpH_C03_query
	vpHarnesses["vpH_C03_twofilters"] = vpH_C03_twofilters
}

// ---------------------------------------------------------------------------
// History generator shared by C03/C04/C05/C15/C16.
//
// Shape (vpChoice): per step the event class, the author ('A'/'B'), for a
// deletion request its reference tags, or "offer event j again" (duplicate).
// Symbolic (solver): every created_at, every d value, the capacity.
// Ids are distinct constants by position (assumption A1: an id identifies an
// event; a duplicate is the same event offered again), so a reference can name
// an event that arrives later.

const (
	vpClsRegular = iota
	vpClsDelete
	vpClsReplaceable
	vpClsEphemeral
	vpClsAddr
	vpClsAddrNoD
	vpClsAddrBareD // tags [["d"],["d",x]]: the first d tag counts (d = "")
	vpNumCls
)

var vpClsKind = [...]int64{1, 5, 0, 20000, 30000, 30000, 30000}

type vpHist struct {
	n     int
	pk    []string // author per position
	d     []string // d value per position (used when the class is addressable)
	evs   []*Event // events created so far (by position; nil until created)
	cls   []int
	rich  bool // thorough: 3-element reference tags and two-reference requests
	multi bool // two authors
}

func vpNewHist(n int, multi, rich bool) *vpHist {
	h := &vpHist{n: n, multi: multi, rich: rich}
	for i := 0; i < n; i++ {
		pk := "A"
		if multi && i > 0 && vpChoice("author", 2) == 1 {
			pk = "B"
		}
		h.pk = append(h.pk, pk)
		h.d = append(h.d, vpSym1("d"))
		h.evs = append(h.evs, nil)
		h.cls = append(h.cls, -1)
	}
	return h
}

func (h *vpHist) id(i int) string { return string(rune('0' + i)) }

func (h *vpHist) addr(j int) string { return "30000:" + h.pk[j] + ":" + h.d[j] }

// refTag builds one reference tag of a deletion request: the executor chooses
// among the ids of all positions, the addresses of all positions and a fresh id.
func (h *vpHist) refTag() Tag {
	k := vpChoice("ref", 2*h.n+1)
	var t Tag
	switch {
	case k < h.n:
		t = Tag{"e", h.id(k)}
	case k < 2*h.n:
		t = Tag{"a", h.addr(k - h.n)}
	default:
		t = Tag{"e", "9"}
	}
	if h.rich && vpChoice("reflen", 2) == 1 {
		t = append(t, "wss://relay.example")
	}
	return t
}

// refTagID: a second reference, by id only (keeps the shape count down).
func (h *vpHist) refTagID() Tag {
	k := vpChoice("ref2", h.n+1)
	if k < h.n {
		return Tag{"e", h.id(k)}
	}
	return Tag{"e", "9"}
}

// next creates the event offered at step i (or returns an earlier one again).
func (h *vpHist) next(i int) *Event {
	ncls := vpNumCls
	k := vpChoice("class", ncls+i) // classes, or duplicate of an earlier position
	if k >= ncls {
		j := k - ncls
		h.cls[i] = h.cls[j]
		h.evs[i] = h.evs[j]
		return h.evs[j]
	}
	e := &Event{ID: h.id(i), Pubkey: h.pk[i], Kind: vpClsKind[k], CreatedAt: vpInt64("at"), Tags: []Tag{}}
	switch k {
	case vpClsDelete:
		e.Tags = append(e.Tags, h.refTag())
		if h.rich && vpChoice("tworefs", 2) == 1 {
			e.Tags = append(e.Tags, h.refTagID())
		}
	case vpClsAddr:
		e.Tags = append(e.Tags, Tag{"d", h.d[i]})
	case vpClsAddrBareD:
		e.Tags = append(e.Tags, Tag{"d"}, Tag{"d", h.d[i]})
	}
	h.cls[i] = k
	h.evs[i] = e
	return e
}

// ---------------------------------------------------------------------------
// Reference model of the statement (C04/C05), tolerant of ties.

func specClass(e *Event) int {
	k := e.Kind
	switch {
	case k == 0 || k == 3 || (10000 <= k && k < 20000):
		return vpClsReplaceable
	case 20000 <= k && k < 30000:
		return vpClsEphemeral
	case 30000 <= k && k < 40000:
		return vpClsAddr
	}
	return vpClsRegular
}

func specDVal(e *Event) string {
	for _, t := range e.Tags {
		if len(t) >= 1 && t[0] == "d" {
			if len(t) > 1 {
				return t[1]
			}
			return ""
		}
	}
	return ""
}

// specSameAddr: x and e are versions of the same replaceable/addressable address.
func specSameAddr(x, e *Event) bool {
	cx, ce := specClass(x), specClass(e)
	if cx != ce || x.Kind != e.Kind || x.Pubkey != e.Pubkey {
		return false
	}
	switch ce {
	case vpClsReplaceable:
		return true
	case vpClsAddr:
		return specDVal(x) == specDVal(e)
	}
	return false
}

func specAddrString(e *Event) string {
	return fmt.Sprintf("%d:%s:%s", e.Kind, e.Pubkey, specDVal(e))
}

// specRefs: deletion request k (of the same author) references e by id or address.
func specRefs(k, e *Event) bool {
	if k.Kind != 5 || k.Pubkey != e.Pubkey {
		return false
	}
	r := false
	for _, t := range k.Tags {
		if len(t) < 2 {
			continue
		}
		if t[0] == "e" {
			r = vpOr(r, t[1] == e.ID)
		}
		if t[0] == "a" && specClass(e) == vpClsAddr {
			r = vpOr(r, t[1] == specAddrString(e))
		}
	}
	return r
}

func vpHasEvent(l []*Event, e *Event) bool {
	for _, x := range l {
		if x == e {
			return true
		}
	}
	return false
}

func vpSameSet(a, b []*Event) bool {
	if len(a) != len(b) {
		return false
	}
	for _, x := range a {
		if !vpHasEvent(b, x) {
			return false
		}
	}
	return true
}

// specStep checks one observed transition before --Add(e)=flag--> after against
// the statement; it asserts membership in the set of allowed successors.
func specStep(P string, before []*Event, e *Event, flag bool, after []*Event, capacity int64, length int) {
	// general invariants of every state
	vpAssert(int64(len(after)) <= capacity, P+".capacity")
	vpAssert(length == len(after), P+".len")
	for i, x := range after {
		for _, y := range after[i+1:] {
			vpAssert(x != y && x.ID != y.ID, P+".no-duplicate-id")
			vpAssert(!specSameAddr(x, y), P+".one-version-per-address")
		}
		vpAssert(specClass(x) != vpClsEphemeral, P+".ephemeral-not-served")
	}
	for i := 0; i+1 < len(after); i++ {
		vpAssert(after[i].CreatedAt >= after[i+1].CreatedAt, P+".listing-order")
	}

	// suppressed by a retained deletion request of the same author
	supp := false
	for _, k := range before {
		supp = vpOr(supp, specRefs(k, e))
	}
	if supp {
		vpAssert(!flag, P+".suppressed-flag")
		vpAssert(vpSameSet(before, after), P+".suppressed-unchanged")
		return
	}
	if specClass(e) == vpClsEphemeral {
		vpAssert(flag, P+".ephemeral-flag")
		vpAssert(vpSameSet(before, after), P+".ephemeral-unchanged")
		return
	}
	if vpHasEvent(before, e) {
		vpAssert(!flag, P+".duplicate-flag")
		vpAssert(vpSameSet(before, after), P+".duplicate-unchanged")
		return
	}
	// newest version wins
	var replaced *Event
	for _, x := range before {
		if specSameAddr(x, e) {
			if x.CreatedAt >= e.CreatedAt {
				vpAssert(!flag, P+".older-version-flag")
				vpAssert(vpSameSet(before, after), P+".older-version-unchanged")
				return
			}
			replaced = x
		}
	}
	vpAssert(flag, P+".new-flag")
	var s1 []*Event
	for _, x := range before {
		if x != replaced {
			s1 = append(s1, x)
		}
	}
	s1 = append(s1, e)
	if e.Kind == 5 {
		var keep []*Event
		for _, x := range s1 {
			if specRefs(e, x) {
				continue
			}
			keep = append(keep, x)
		}
		s1 = keep
	}
	if int64(len(s1)) > capacity {
		vpAssert(len(after) == len(s1)-1, P+".evict-exactly-one")
		var missing *Event
		for _, x := range s1 {
			if !vpHasEvent(after, x) {
				vpAssert(missing == nil, P+".evict-only-one")
				missing = x
			}
		}
		vpAssert(missing != nil, P+".evict-from-successor")
		for _, x := range after {
			vpAssert(vpHasEvent(s1, x), P+".evict-no-foreign")
		}
		if missing != nil {
			for _, x := range s1 {
				vpAssert(missing.CreatedAt <= x.CreatedAt, P+".evict-oldest")
			}
		}
		return
	}
	vpAssert(vpSameSet(s1, after), P+".successor")
}

func vpHistSteps() int {
	if vpTier() > 0 {
		return 3
	}
	return 2
}

// C04: every observed transition of the real EventCache is one the statement allows.
func vpH_C04_history() {
	n := vpHistSteps()
	capacity := vpCapacity(1)
	c := NewEventCache(capacity)
	vpRunC04(c, vpNewHist(n, false, false), capacity)
}

// The same with "rich" deletion requests (3-element reference tags, two
// references per request) on histories of 2 steps.
func vpH_C04_rich() {
	capacity := vpCapacity(1)
	c := NewEventCache(capacity)
	vpRunC04(c, vpNewHist(2, false, true), capacity)
}

func vpRunC04(c *EventCache, h *vpHist, capacity int) {
	all := []*ReqFilter{{}}
	for i := 0; i < h.n; i++ {
		e := h.next(i)
		before := c.Find(all)
		flag := c.Add(e)
		after := c.Find(all)
		specStep("C04", before, e, flag, after, int64(capacity), c.Len())
		vpNoteBool("flag", flag)
		vpNoteInt64("len", int64(len(after)))
	}
	vpReach("end")
}

// EventType classifies every int64 kind as the statement says.
func vpH_C04_eventType() {
	k := vpInt64("kind")
	e := &Event{Kind: k}
	t := e.EventType()
	repl := vpOr(vpOr(k == 0, k == 3), vpAnd(10000 <= k, k < 20000))
	eph := vpAnd(20000 <= k, k < 30000)
	addr := vpAnd(30000 <= k, k < 40000)
	vpAssert((t == EventTypeReplaceable) == repl, "C04.eventtype-replaceable")
	vpAssert((t == EventTypeEphemeral) == eph, "C04.eventtype-ephemeral")
	vpAssert((t == EventTypeParamReplaceable) == addr, "C04.eventtype-addressable")
	vpAssert((t == EventTypeRegular) == !vpOr(vpOr(repl, eph), addr), "C04.eventtype-regular")
	vpReach("end")
}

// ---------------------------------------------------------------------------
// C05: two authors. (O2) every transition is an allowed one (the step model
// removes/blocks only events of the request's own author); (O1) non-
// interference without a model: a second REAL cache that only ever sees
// author Y's events must agree with the Y-projection of the shared cache.
// Capacity is assumed >= number of steps here (eviction is C04's subject).

func vpProject(l []*Event, pk string) []*Event {
	var r []*Event
	for _, x := range l {
		if x.Pubkey == pk {
			r = append(r, x)
		}
	}
	return r
}

func vpH_C05_history() {
	n := vpHistSteps()
	capacity := vpCapacity(n)
	c := NewEventCache(capacity)
	shadow := map[string]*EventCache{"A": NewEventCache(capacity), "B": NewEventCache(capacity)}
	h := vpNewHist(n, true, false)
	all := []*ReqFilter{{}}
	for i := 0; i < n; i++ {
		e := h.next(i)
		before := c.Find(all)
		flag := c.Add(e)
		after := c.Find(all)
		specStep("C05", before, e, flag, after, int64(capacity), c.Len())
		sflag := shadow[e.Pubkey].Add(e)
		vpAssert(flag == sflag, "C05.noninterference-flag")
		for _, pk := range []string{"A", "B"} {
			vpAssert(vpSameSet(vpProject(after, pk), shadow[pk].Find(all)), "C05.noninterference-listing")
		}
		vpNoteBool("flag", flag)
	}
	vpReach("end")
}

// ---------------------------------------------------------------------------
// C03: after any history, Find(fs) == the filter spec over the retained set
// (= what Find([{}]) lists), whichever access path serves each filter.

func vpH_C03_query() {
	n := 2
	capacity := vpCapacity(1)
	c := NewEventCache(capacity)
	h := vpNewHist(n, true, false)
	for i := 0; i < n; i++ {
		c.Add(h.next(i))
	}
	retained := c.Find([]*ReqFilter{{}})
	nf := 1
	maxList := 1
	fs := make([]*ReqFilter, nf)
	for i := range fs {
		if vpTier() > 0 {
			fs[i] = vpGenFilterX(fmt.Sprintf("f%d", i), maxList, 1, true, true)
		} else {
			fs[i] = vpGenFilterFocused(fmt.Sprintf("f%d", i))
		}
		if fs[i].Limit != nil {
			vpAssume(*fs[i].Limit >= 0)
		}
	}
	got := c.Find(fs)
	specQuery("C03", retained, fs, got)
	vpNoteInt64("n", int64(len(got)))
	// queries are read-only: the retained set is unchanged, and a later query - here
	// every single condition of the first filter on its own - is still answered per spec
	vpAssert(vpSameSet(retained, c.Find([]*ReqFilter{{}})), "C03.query-does-not-change-the-store")
	f := fs[0]
	var singles []*ReqFilter
	if f.IDs != nil {
		singles = append(singles, &ReqFilter{IDs: f.IDs})
	}
	if f.Authors != nil {
		singles = append(singles, &ReqFilter{Authors: f.Authors})
	}
	if f.Kinds != nil {
		singles = append(singles, &ReqFilter{Kinds: f.Kinds})
	}
	if len(f.Tags) > 0 {
		singles = append(singles, &ReqFilter{Tags: f.Tags})
	}
	if len(singles) > 1 {
		for _, sf := range singles {
			specQuery("C03.after-query", retained, []*ReqFilter{sf}, c.Find([]*ReqFilter{sf}))
		}
	}
	vpReach("end")
}

// specQuery: got is an allowed answer to fs over retained (ties may break either way).
func specQuery(P string, retained []*Event, fs []*ReqFilter, got []*Event) {
	for i, r := range got {
		vpAssert(vpHasEvent(retained, r), P+".subset-of-retained")
		for _, o := range got[i+1:] {
			vpAssert(o != r, P+".no-duplicates")
		}
		if i+1 < len(got) {
			vpAssert(r.CreatedAt >= got[i+1].CreatedAt, P+".order")
		}
		// r is among the limit newest matches of some filter
		just := false
		for _, f := range fs {
			ok := specMatch(f, r)
			if f.Limit != nil {
				var newer int64
				for _, x := range retained {
					if x != r {
						newer += vpB2I(vpAnd(specMatch(f, x), x.CreatedAt > r.CreatedAt))
					}
				}
				ok = vpAnd(ok, newer < *f.Limit)
			}
			just = vpOr(just, ok)
		}
		vpAssert(just, P+".returned-is-justified")
	}
	for _, e := range retained {
		if vpHasEvent(got, e) {
			continue
		}
		// e may be missing only if every filter it matches is saturated by events at least as new
		for _, f := range fs {
			excused := !specMatch(f, e)
			if f.Limit != nil {
				var asNew int64
				for _, x := range retained {
					if x != e {
						asNew += vpB2I(vpAnd(specMatch(f, x), x.CreatedAt >= e.CreatedAt))
					}
				}
				excused = vpOr(excused, asNew >= *f.Limit)
			}
			vpAssert(excused, P+".no-match-missing")
		}
	}
}

// C03, several filters in one query: each filter contributes ITS limit newest
// matches (a saturated filter must not admit more because another one is still
// searching); overlapping filters; both access paths mixed.
func vpH_C03_twofilters() {
	n := 3
	if vpTier() > 0 {
		n = 4
	}
	c := NewEventCache(vpCapacity(n))
	for i := 0; i < n; i++ {
		pk := "A"
		if i == n-1 {
			pk = "B"
		}
		c.Add(&Event{ID: string(rune('0' + i)), Pubkey: pk, Kind: 1, CreatedAt: vpInt64("at"), Tags: []Tag{}})
	}
	retained := c.Find([]*ReqFilter{{}})
	l0 := vpInt64("f0.limit")
	vpAssume(l0 >= 0)
	f0 := &ReqFilter{Limit: &l0, Since: vpGenOptInt("f0.since")}
	f1 := &ReqFilter{Until: vpGenOptInt("f1.until"), Limit: vpGenOptInt("f1.limit")}
	if f1.Limit != nil {
		vpAssume(*f1.Limit >= 0)
	}
	if vpChoice("f1.selective", 2) == 1 {
		f1.Authors = []string{"A"}
	}
	fs := []*ReqFilter{f0, f1}
	specQuery("C03.two-filters", retained, fs, c.Find(fs))
	vpReach("end")
}
